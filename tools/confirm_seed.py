#!/usr/bin/env python3
"""Confirm a seeded change in a scratch worktree: (a) builds, (b) the pinned suite passes with the change,
(c) the demonstration passes without and fails with the change.  tools/confirm_seed.py <seed-id> ...
Writes seeded/<id>/confirm.json.  The worktree and its build output are removed afterwards."""
import json, os, re, subprocess, sys, shutil, time
V = os.path.dirname(os.path.dirname(os.path.abspath(__file__)))
DEMO = {  # seed -> (destination in tree, cargo test args, optional lib.rs line)
 "C05-m1": ("tests/c05_m1_root_of_unity.rs", ["--test", "c05_m1_root_of_unity"], None),
 "C05-m2": ("tests/c05_m2_many_shares.rs", ["--test", "c05_m2_many_shares"], None),
 "C07-m1": ("tests/c07_m1_field_modulus.rs", ["--test", "c07_m1_field_modulus"], None),
 "C07-m2": ("tests/c07_m2_public_share_len.rs", ["--test", "c07_m2_public_share_len"], None),
 "C08-m1": ("tests/c08_m1_length_prefix.rs", ["--test", "c08_m1_length_prefix"], None),
 "C08-m2": ("tests/c08_m2_verifier_state_alloc.rs", ["--test", "c08_m2_verifier_state_alloc"], None),
 "C09-m1": ("tests/c09_m1_demo.rs", ["--test", "c09_m1_demo"], None),
 "C09-m2": ("tests/c09_m2_demo.rs", ["--test", "c09_m2_demo"], None),
 "C10-m1": ("src/c10_demo_m1.rs", ["--lib", "c10_demo_m1"], "#[cfg(test)]\nmod c10_demo_m1;\n"),
 "C10-m2": ("src/c10_demo_m2.rs", ["--lib", "c10_demo_m2"], "#[cfg(test)]\nmod c10_demo_m2;\n"),
 "C12-m1": ("tests/c12_m1_share_order.rs", ["--test", "c12_m1_share_order"], None),
 "C12-m2": ("tests/c12_m2_retyped_init.rs", ["--test", "c12_m2_retyped_init"], None),
 "C13-m1": ("tests/c13_m1_refused_merge_unchanged.rs", ["--test", "c13_m1_refused_merge_unchanged"], None),
 "C13-m2": ("tests/c13_m2_aggregate_checks_every_share.rs", ["--test", "c13_m2_aggregate_checks_every_share"], None),
 "C16-m1": ("tests/c16_m1_sumvec_extreme.rs", ["--test", "c16_m1_sumvec_extreme"], None),
 "C16-m2": ("tests/c16_m2_prio2_capacity.rs", ["--test", "c16_m2_prio2_capacity"], None),
}
def load_extra():
    p = os.path.join(V, "seeded", "demo_map.json")
    if os.path.exists(p):
        for k, v in json.load(open(p)).items():
            DEMO[k] = tuple(v)
def sh(cmd, cwd, timeout=3000):
    env = dict(os.environ, CARGO_NET_OFFLINE="true")
    p = subprocess.run(cmd, cwd=cwd, env=env, capture_output=True, text=True, timeout=timeout)
    return p.returncode, p.stdout + p.stderr
def confirm(sid):
    d = os.path.join(V, "seeded", sid)
    wt = f"/tmp/cs-{sid}"
    subprocess.run(["git", "-C", "/repo", "worktree", "remove", "--force", wt], capture_output=True)
    assert subprocess.run(["git", "-C", "/repo", "worktree", "add", "-q", wt, "HEAD"]).returncode == 0
    res = {"seed": sid, "repo_head": subprocess.run(["git","-C","/repo","rev-parse","--short","HEAD"],capture_output=True,text=True).stdout.strip()}
    try:
        dest, targs, libline = DEMO[sid]
        feats = ["--features", "experimental,test-util"]
        def put_demo():
            shutil.copy(os.path.join(d, "demo.rs"), os.path.join(wt, dest))
            if libline:
                with open(os.path.join(wt, "src/lib.rs"), "a") as f: f.write("\n" + libline)
        def rm_demo():
            os.remove(os.path.join(wt, dest))
            if libline: sh(["git", "checkout", "--", "src/lib.rs"], wt)
        # (c1) demo passes on the clean tree
        put_demo()
        rc, out = sh(["cargo", "test", "--offline"] + feats + targs, wt)
        res["demo_clean_rc"] = rc; res["demo_clean_tail"] = out[-600:]
        rm_demo()
        # apply
        rc, out = sh(["git", "apply", os.path.join(d, "patch.diff")], wt)
        res["apply_rc"] = rc
        if rc != 0: res["apply_out"] = out[-500:]; return res
        rc, out = sh(["cargo", "build", "--offline", "--all-targets"] + feats, wt)
        res["build_rc"] = rc
        rc, out = sh(["cargo", "nextest", "run", "--workspace", "--no-fail-fast", "--offline", "--test-threads", "8"], wt)
        m = re.search(r"(\d+) tests run: (\d+) passed(?:, (\d+) failed)?", out)
        res["suite_rc"] = rc; res["suite"] = m.group(0) if m else out[-300:]
        put_demo()
        rc, out = sh(["cargo", "test", "--offline"] + feats + targs, wt)
        res["demo_patched_rc"] = rc; res["demo_patched_tail"] = out[-900:]
        res["confirmed"] = (res["demo_clean_rc"] == 0 and res["build_rc"] == 0 and res["suite_rc"] == 0 and res["demo_patched_rc"] != 0)
    finally:
        subprocess.run(["git", "-C", "/repo", "worktree", "remove", "--force", wt], capture_output=True)
        shutil.rmtree(wt, ignore_errors=True)
        subprocess.run(["git", "-C", "/repo", "worktree", "prune"])
    json.dump(res, open(os.path.join(d, "confirm.json"), "w"), indent=1)
    return res
if __name__ == "__main__":
    load_extra()
    for sid in sys.argv[1:]:
        t = time.time(); r = confirm(sid)
        print(sid, "confirmed" if r.get("confirmed") else "NOT CONFIRMED", {k: v for k, v in r.items() if k.endswith("_rc") or k == "suite"}, f"{time.time()-t:.0f}s", flush=True)
