#!/usr/bin/env python3
"""Regenerates /verif/MANIFEST.json from the table below (single source of truth for the interface)."""
import json
import os
import subprocess

HERE = os.path.dirname(os.path.dirname(os.path.abspath(__file__)))

K = "Kani 0.68 harnesses compiled inside the crate, decided by CBMC 6.11 + CaDiCaL over all values of the symbolic inputs within each harness's stated bound; counterexamples replayed natively (cargo kani playback) before being reported"
M = "own MIR->SMT-LIB2 symbolic executor over rustc's MIR of the real functions (integer encoding with explicit mod 2^W), z3 5.1 verdicts cross-checked with cvc5 1.0.3; translator validated against the native functions on every run"

CLAIMED = {
    # id: (technique, level text, level note, design_ref, has_thorough)
    "C16": ("bounded symbolic model checking (Kani/CBMC) of constructors, encoders and Prio3 protocol operations with fully symbolic arguments, plus a MIR->SMT interval pass over narrow-width arithmetic",
            "Every constructor of the FLP types, Prio3 and Prio2 is executed symbolically with each scalar argument ranging over its whole type (u8/u64/u128/usize): "
            "no panic, arithmetic overflow, shift overflow, out-of-bounds index or unwrap failure on any path, plus the accept/reject predicate where documented; length accessors of "
            "accepted instances do not overflow (sizes <= 2^24); measurement encoders refuse every out-of-range or wrong-length measurement; Prio3's verifier_shares_to_message, verify_next, "
            "verify_init (stub XOF) and the parameterised decoders refuse wrong share counts, wrong lengths, missing optional parts and out-of-range aggregator identifiers with an error. "
            "Engine M proves every checked u8/u16/u32 operation in the protocol modules (incl. Poplar1::verify_init and Prio3::shard_with_random, which Kani cannot enter) overflow-free from "
            "operand intervals derived from the MIR; unproved sites are replayed through native drivers.",
            "Type parameters of the encoder/protocol harnesses are small concrete GF(17)/Field64 instances; one M site is proved under a listed invariant (aggregator index < num_aggregators <= 254); "
            "word-sized arithmetic in functions Kani cannot enter, the DP constructors (BigUint) and Poplar1's operations beyond verify_init's integer arithmetic are outside. "
            "Trusted: Kani/CBMC/CaDiCaL, z3/cvc5, rustc MIR.", "DESIGN.md §4 C16", True),
    "C01": ("bounded symbolic model checking (Kani/CBMC) of the measurement codecs and of one complete prove/query/decide run over GF(17)",
            "Narrow slice of the property: for every FLP type over GF(17) and every in-range measurement, encode_measurement yields the declared number of 0/1 "
            "elements, decode_result(truncate(encode(m))) = m (Sum for every max_measurement in {1,2,3,4,5,7,8,15,16}; Histogram; MultihotCountVec; L1BoundSum; Average as f64), "
            "sums of two truncated encodings decode to the sum, encodings satisfy the validity circuit, Average never refuses a large aggregate, and for Count a proof "
            "generated with any prover randomness is accepted by query+decide for any admissible query randomness.",
            "NOT covered: sharding, verification with real XOFs, aggregator counts, multi-proof, wire round trips inside the pipeline - see outside_claim in the evidence. "
            "This check therefore cannot see defects that live only in Prio3's seed handling.", "DESIGN.md §4 C01", False),
    "C02": ("bounded symbolic model checking (Kani/CBMC) of Prio3's structural rejection conditions (stub XOF, GF(17))",
            "Structural half of the property only: verify_next releases the stored output share iff ALL bytes of the aggregator's own joint-randomness seed equal the message's (every seed pair), "
            "never continues, and refuses missing seeds; verifier_shares_to_message accepts iff EVERY proof's summed verifier satisfies the decision predicate (two proofs, every verifier value), "
            "and refuses wrong share counts (0, 1, 3; 256+ via engine M under C16), wrong verifier lengths and missing joint-randomness parts; decide equals the reference predicate and the "
            "validity circuits equal their specification, with Count/Sum vanishing exactly on valid encodings (C05 harnesses tagged C02). These are the conditions a tampered report must get past.",
            "NOT covered: that a tampered or invalid report actually violates one of these conditions except with negligible probability (FLP soundness, hash binding of the joint randomness) - "
            "a probability statement over XOF outputs, outside this family. The XOF is a constant-stream stub; instances are small GF(17) ones.", "DESIGN.md §4 C02", False),
    "C04": ("bounded symbolic model checking (Kani/CBMC) of Poplar1's verification state machine and sketch combination",
            "State machine only: Poplar1::verify_next finishes only from (round two, Done) and releases exactly the stored output share, continues only from (round one, sketch of the same field) "
            "into round two with the same output share and the specified round-two share, and refuses every other state/message pairing (incl. Done in round one); finish_sketch equals its formula for "
            "all values over GF(17); verifier_shares_to_message yields Done iff the two round-two shares sum to zero (inner level for all Field64 values, leaf level over Field255 for a range of values), "
            "the element-wise sum for round-one shares, and refuses wrong counts, lengths and mixed inner/leaf shares.",
            "NOT covered: that a malformed report fails the sketch except with negligible probability, IDPF outputs, canonical decoding of correction words (bitvec), alterations of shares in transit - "
            "everything that runs through the IDPF or an XOF.", "DESIGN.md §4 C04", False),
    "C05": ("bounded symbolic model checking (Kani/CBMC) of the validity circuits, decide, query refusal and length formulas over GF(17)",
            "For each shipped circuit at small parameters, valid() equals the draft's formula written independently (all inputs, joint randomness and share counts 1..3, incl. the "
            "zero-padded partial chunk and the 1/num_shares constants, the latter for every share count 1..1000 over GF(61441)); decide() equals the reference predicate for every verifier "
            "message; declared proof/verifier/randomness lengths equal the structural formulas for ranges of parameters; wrong-length arguments to prove/query/decide are refused; "
            "query refuses exactly the roots of unity of the wire-polynomial domain independently of the compression coefficients; Count: prove -> query -> decide accepts for all randomness.",
            "Share-linearity of query and soundness as a probability are outside; circuits are exercised at the smallest parameters that reach every code path; GF(17).", "DESIGN.md §4 C05", True),
    "C07": ("bounded symbolic model checking (Kani/CBMC) of decoders/encoders on fully symbolic byte strings and values (decode contract + encode contract per message type)",
            "For each covered message type and small concrete instance, the decoder is run on *every* byte string of the honest length (and of the honest "
            "length +-1): it accepts exactly the strings whose elements are canonical, its fields equal the primitive decoders applied to the corresponding "
            "slices in wire order, trailing and missing bytes are refused, and encoded_len() of the result equals the input length (contract D); the encoder is "
            "run on every value: its output is the concatenation of the primitive encodings in wire order and has the advertised length (contract E). "
            "Primitive codecs (u8..u64, Seed, length-prefixed vectors, field elements incl. the non-canonical >= p cases of all four shipped fields) are decided "
            "as full round trips. decode(encode(v)) = v and encode(decode(b)) = b follow from D, E and the primitive round trips.",
            "Covered: integers, Seed<16/32>, u8/u16/u32-prefixed vectors, field elements (FieldPrio2/64/128/255 accept sets; Field8/16 full round trip), Prio3 "
            "public share, input share (leader/helper), verifier share, verifier message, verify state, output/aggregate share over GF(17) instances (Count; SumVec(1,2,2)), "
            "PingPongMessage, PingPongContinuation (C12 toy VDAF). Not covered: bitvec-based types (Poplar1AggregationParam, IdpfPublicShare), Poplar1 and Prio2 messages "
            "unless listed in the evidence, larger instances. The final composition step (D + E => round trip) is an argument, not a solver query.",
            "DESIGN.md §4 C07/C08", False),
    "C08": ("bounded symbolic model checking (Kani/CBMC): every decoder run on every byte string of each length in a partition of the input space",
            "The same harness family as C07, read for totality: for every covered decoder and every byte string of the stated lengths (honest, honest+-1, and the "
            "header-partitioned instances in which a length prefix or tag is symbolic over its whole inadmissible range incl. 0xFFFFFFFF and usize::MAX) CBMC proves "
            "that the call returns Ok or Err - no panic, no arithmetic overflow, no out-of-bounds slice, no unwrap failure - and that inadmissible prefixes are refused before any read loop.",
            "Bounded lengths (<= 65 bytes) and small instances; allocation proportionality is implied only through 'prefix > remaining input is refused before "
            "allocation'; decoders that take element counts from the wire inside bitvec-based types are not covered.", "DESIGN.md §4 C07/C08", False),
    "C09": ("MIR->SMT symbolic execution of the Montgomery kernels (cut-point lemma chain, z3 + cvc5) plus Kani/CBMC on the 8/16-bit instantiations and the full-width glue",
            "Engine M executes rustc's MIR of fp::ops symbolically (integers with explicit mod 2^W): add/sub/neg/modp equal arithmetic mod p for every operand and every modulus "
            "0 < p < 2^W at W = 32, 64, 128; the single-word REDC of FP32/FP64 satisfies r < p and r*R + e*p*R = x*y + p*w for every word x and every y < p with mu recomputed from p; "
            "the split-word REDC of FP128 (and of two 16-bit instantiations, one with a modulus whose low half is not 1 so that every carry is live) is decided by a five-lemma chain "
            "(schoolbook limbs, reduction round 1, round 2, final subtraction, closing implication) together with every no-overflow obligation of the body; montgomery/residue follow as corollaries; "
            "all field constants (MU, R2, HALF, BIT_MASK, ROOTS chain, order of G) are re-derived from p. The translator is validated on every run against the natively compiled functions, "
            "a failed lemma is lifted to a real operand pair and replayed natively before it is reported. Engine K adds: the same generic code exhaustively at 8-bit words against `%` "
            "(incl. pow and inv), 16-bit REDC against an independent reference, reducedness/Eq/ct_eq/select/negate consistency and the byte-decoding accept sets of all four shipped fields.",
            "pow/inv are decided at 8-bit words only; Field255 mul/inv are fiat-crypto's (trusted); primality of p is not decided; a lemma quantifies over all stage pre-states within its "
            "invariant (superset of the reachable ones); trusted: the intrinsic table of engine M, rustc MIR, z3/cvc5, Kani/CBMC.", "DESIGN.md §4 C09", True),
    "C10": ("bounded symbolic model checking (Kani/CBMC) of the generic NTT/Lagrange routines over GF(17) against textbook oracles",
            "ntt, ntt_set_s, ntt_inv, nth_root_powers, poly_eval_lagrange_batched, extend_values_to_power_of_2, double_evaluations, poly_mul_lagrange, "
            "poly_eval_monomial and poly_interpret_eval (the crate's generic code at F = GF(17)) are compared with direct Horner evaluation / naive Lagrange "
            "interpolation written in plain integer arithmetic: all input vectors for n <= 4, at most two non-zero entries (positions and values symbolic) for n = 8, 16; "
            "evaluation points include the interpolation nodes; size errors for every size value.",
            "Field = GF(17) (hook instantiation of the unchanged generic code), sizes <= 16, sparse inputs above n = 4 (stated bound, not a linearity proof). "
            "The SizeTooLarge limits (2^19/2^20) are outside Kani's reach and are not claimed here.", "DESIGN.md §4 C10", True),
    "C11": ("bounded symbolic model checking (Kani/CBMC) of Prng::get / generate_random from arbitrary buffer states over a symbolic byte stream",
            "Prng::get is run once from an arbitrary valid internal state (32-byte buffer and read position symbolic) over a stream stub that returns arbitrary bytes: it returns the element of the "
            "first chunk whose masked value is below the modulus, skips exactly the rejected chunks, consumes buffered chunks before refilling, refills exactly once when the buffer is exhausted "
            "and keeps the stream position across into_new_field; generate_random reads one chunk at a time and rejects exactly the chunks >= p; the accept set of try_from_random is decided at "
            "full width for the three shipped integer fields and Field255.",
            "Chunking-independence and derived seeds of the hash-based XOFs are NOT covered (symbolic hash input); at most two consecutive rejections; GF(17)/GF(61441) for the Prng harnesses.",
            "DESIGN.md §4 C11", True),
    "C12": ("bounded symbolic model checking (Kani/CBMC) of the generic ping-pong routines instantiated with an order-sensitive instrumented VDAF",
            "One step of leader_continued/helper_continued from an arbitrary host state (rounds 1..3, any round, both roles) under an arbitrary inbound message "
            "(every kind, every payload byte, wrong payload lengths) is compared with the draft's ping_pong_continued written independently: Initialize refused, "
            "output share only for (Finish, Finish), kind mismatches and undecodable payloads refused, shares reach the combiner as [leader, helper] for both roles. "
            "helper_initialized accepts only Initialize; evaluate() equals ping_pong_transition; decode(encode(continuation)).evaluate() equals the original, twice; "
            "finished continuations cannot be encoded; complete 1- and 2-round (thorough: 3-round) exchanges with persistence at every step end with the broadcast outputs.",
            "The VDAF is a harness-defined toy (1-byte shares) implementing the public Aggregator trait; rounds <= 3; Prio3/Poplar1 as the VDAF are outside (their verify "
            "steps hash). Replayed/duplicated messages are covered as 'arbitrary message against arbitrary state', not as multi-step histories.", "DESIGN.md §4 C12", True),
    "C13": ("bounded symbolic model checking (Kani/CBMC) of merge/accumulate/aggregate with arbitrary valid field representatives",
            "AggregateShare::{merge,accumulate} for Field64/Field128/FieldPrio2 (length-2 vectors, every element an arbitrary representative < p): commutative, "
            "associative, zero identity, accumulate = merge, element-wise sums; refusal on length mismatch leaves the accumulator bit-identical; the default "
            "Aggregator::aggregate for Prio3Count and Prio2 equals any partition into batches merged in any order and checks every share including the first; "
            "Poplar1FieldVec refuses Inner/Leaf and length mismatches unchanged.",
            "Vector lengths <= 3, three shares; Poplar1 leaf (Field255) sums are outside; unshard's decode step is C01's subject.", "DESIGN.md §4 C13", True),
    "C19": ("bounded symbolic model checking (Kani/CBMC) of Prio2's parameter bounds, proof packing and aggregator-side formulas over GF(17)",
            "Narrow slice: Prio2::new is total for every usize; proof_length/unpack_proof accept exactly dim + 3 + nextpow2(dim+1) elements and tile the slice in wire order (dim 0..6, every length 0..20); "
            "generate_verification_message equals interpolate-and-evaluate references for dimension 1 (every proof share, query point and role; dimension 2 in the thorough tier), including the case where "
            "dimension + 1 is a power of two; is_valid_share accepts iff (f1+f2)(g1+g2) = h1+h2; wrong-length shares are refused; the verifier-share codec accepts exactly canonical elements.",
            "NOT covered: client proof generation, end-to-end acceptance/aggregation, soundness, the query-point exclusion (choose_eval_at exhausts CBMC memory); GF(17) stands in for FieldPrio2.",
            "DESIGN.md §4 C19", True),
}

NOT_APPLICABLE = {
    "C03": "sharding, IDPF evaluation and the sketch run through the bitvec crate (CBMC out of memory) and AES/TurboSHAKE on symbolic input; the only reachable piece (u16 arithmetic of verify_init, aggregation-parameter codec header) is decided under C16/C07/C08",
    "C06": "IDPF: every entry point (IdpfInput, Idpf::gen/eval, caches, public-share codec) is built on the bitvec crate, which drives CBMC out of memory (65 GB) on a 3-bit input, and on AES/TurboSHAKE over symbolic seeds; not encodable by the solver-based family here",
    "C14": "quantifies over rayon work-stealing schedules; Kani does not model threads and the fold/reduce closures cannot be driven without rayon - a hand model would verify the model, not the code",
    "C15": "an exact probability law over random tapes computed with heap BigUint rationals inside unbounded rejection loops; a measure, not a forall-assertion, and num-bigint division is far beyond bit-blasting reach",
    "C17": "2-safety over two complete sharding runs that hash symbolic input through TurboSHAKE/AES; even a single run with a stub XOF exceeded 900 s in CBMC",
    "C18": "rejection under ctx/nonce/key mismatch is collision resistance of the XOF input encoding: symbolic hash input is infeasible, and any cheap stand-in hash yields its own collisions as false alarms",
    "C20": "is_agg_param_valid / try_from_prefixes / decode operate on IdpfInput (bitvec) and BTreeSet of them - same CBMC out-of-memory; the Prio3/Prio2 half (prev.is_empty()) is too trivial to carry the claim",
}

PENDING = "check under construction in this session (planned in DESIGN.md §4); not claimed until its quick command passes on the unchanged tree"

ALL = [f"C{i:02d}" for i in range(1, 21)]


def main():
    hooks = subprocess.run(["git", "-C", "/repo", "log", "--format=%h %s"], capture_output=True, text=True).stdout.splitlines()
    hook_commits = [l.split()[0] for l in hooks if l.split(" ", 1)[1].startswith("verif hook")]
    checks = []
    for pid in ALL:
        if pid not in CLAIMED:
            continue
        tech, text, note, ref, thorough = CLAIMED[pid]
        c = {
            "property_id": pid,
            "quick_cmd": f"./check {pid} --tier quick",
            "evidence_file": f"evidence/{pid}.json",
            "replay_cmd_template": f"./check {pid} --replay {{path}}",
            "engine": "K+M" if "MIR" in tech else "K",
            "level_claimed": {"category": "model_checking", "text": text, "design_ref": ref},
            "level_note": note,
            "technique": tech,
        }
        if thorough:
            c["thorough_cmd"] = f"./check {pid} --tier thorough"
        checks.append(c)
    na = []
    for pid in ALL:
        if pid in CLAIMED:
            continue
        na.append({"property_id": pid, "reason": NOT_APPLICABLE.get(pid, PENDING)})
    m = {
        "version": 1,
        "setup_cmd": "./setup.sh",
        "hooks": {
            "guard": "prio_verif (cargo feature of the prio crate; the in-crate harness module additionally requires cfg(kani), which only cargo-kani sets)",
            "enable": "cargo kani --manifest-path /repo/Cargo.toml --features experimental,test-util,prio_verif with PRIO_VERIF_HARNESS=<generated harness file>; MIR dump: cargo +nightly rustc --lib --features experimental,test-util,prio_verif -- -Zunpretty=mir",
            "baseline_off_cmd": "cd /repo && cargo nextest run --workspace --no-fail-fast --tool-config-file pb:/w/lib/nextest.toml --profile pb --test-threads 8 --offline",
            "source_commits": hook_commits,
            "add_only": True,
        },
        "engines": [
            {"name": "K", "path": "vlib/kani.py", "serves_properties": [p for p in ALL if p in CLAIMED],
             "kind_free_text": K},
            {"name": "M", "path": "mirsmt/", "serves_properties": [p for p in ALL if p in CLAIMED and "MIR" in CLAIMED[p][0]],
             "kind_free_text": M},
        ],
        "checks": checks,
        "not_applicable": na,
        "notes": "Solver-based checking of the real code only. exit 0 = all queries UNSAT + vacuity witnesses SAT; exit 1 = VIOLATION (natively reproduced); exit 2 = inconclusive. known_findings.txt lists repaired defects (fixed: lines suppress nothing).",
    }
    with open(os.path.join(HERE, "MANIFEST.json"), "w") as f:
        json.dump(m, f, indent=1)
    print("claimed:", [c["property_id"] for c in checks])


if __name__ == "__main__":
    main()
