#!/usr/bin/env python3
"""Rebuild the seeded-change table in DESIGN.md (between the SEED_TABLE markers) from seeded/*/meta.json."""
import glob, json, os, re
V = os.path.dirname(os.path.dirname(os.path.abspath(__file__)))
rows = []
det = tot = 0
for mp in sorted(glob.glob(os.path.join(V, "seeded", "*", "meta.json"))):
    m = json.load(open(mp))
    tot += 1
    det += bool(m["detected"])
    runs = "; ".join(f"{r['check']} exit {r['exit']}" + (" (inconclusive: " + ", ".join(r["inconclusive"][:2]) + ")" if r["exit"] == 2 and r.get("inconclusive") else "") for r in m["checks_run"])
    by = "; ".join(m["detected_by"]) if m["detected"] else "**missed**"
    rows.append(f"| {m['seed']} | {m['breaks_property']} | {m['needs_to_manifest']} | {by} | {runs} |")
table = ("| seed | breaks | needs, in order to manifest | caught by (check:harnesses) | checks run |\n|---|---|---|---|---|\n" + "\n".join(rows)
         + f"\n\n**{det} of {tot}** seeded changes are reported as VIOLATION (exit 1, natively reproduced) by a quick check.\n")
p = os.path.join(V, "DESIGN.md")
s = open(p).read()
if "SEED_TABLE_PLACEHOLDER" in s:
    s = s.replace("SEED_TABLE_PLACEHOLDER", "<!-- SEED_TABLE_BEGIN -->\n" + table + "<!-- SEED_TABLE_END -->")
else:
    s = re.sub(r"<!-- SEED_TABLE_BEGIN -->.*<!-- SEED_TABLE_END -->", "<!-- SEED_TABLE_BEGIN -->\n" + table.replace("\\", "\\\\") + "<!-- SEED_TABLE_END -->", s, flags=re.S)
open(p, "w").write(s)
print(det, "of", tot)
