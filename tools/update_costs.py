#!/usr/bin/env python3
"""Rewrite the `//@ cost:` hints of the harness files from the durations measured in evidence/*.json."""
import glob, json, os, re
V = os.path.dirname(os.path.dirname(os.path.abspath(__file__)))
dur = {}
for f in glob.glob(os.path.join(V, "evidence", "C*.json")):
    for s in json.load(open(f))["coverage"]["samples"]:
        if s.get("engine") == "K" and s.get("duration_s") and s.get("status") == "pass":
            dur[s["harness"]] = max(dur.get(s["harness"], 0), s["duration_s"])
for f in glob.glob(os.path.join(V, "kani", "harness", "*.rs")):
    out, cur = [], None
    for ln in open(f):
        m = re.match(r"//@ harness: (\w+)", ln)
        if m: cur = m.group(1)
        if ln.startswith("//@ cost:") and cur in dur:
            ln = f"//@ cost: {max(2, int(dur[cur] + 0.5))}\n"
        out.append(ln)
    open(f, "w").write("".join(out))
print(len(dur), "costs updated")
