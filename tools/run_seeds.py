#!/usr/bin/env python3
"""Apply each seeded change to /repo, run the quick checks that could see it, undo it, and record the outcome in
seeded/<id>/meta.json and seeded/RESULTS.md.   tools/run_seeds.py [seed ids...]"""
import json
import os
import re
import subprocess
import sys
import time

V = os.path.dirname(os.path.dirname(os.path.abspath(__file__)))
REPO = os.environ.get("VERIF_REPO", "/repo")
CLAIMED = [c["property_id"] for c in json.load(open(os.path.join(V, "MANIFEST.json")))["checks"]]

# seed -> (property it breaks, what it needs to manifest, checks to run (own property first))
SEEDS = {
    "C01-m1": ("C01", "Prio3Average whose batch sum reaches 2^32 (decode_result narrowed through u32)", ["C01"]),
    "C01-m2": ("C01", ">= 128 aggregators together with a type that uses joint randomness (seed count computed in u8)", ["C01", "C16"]),
    "C02-m1": ("C02", "a multi-proof instance (num_proofs >= 2) and a fault confined to one proof (any instead of all)", ["C02"]),
    "C02-m2": ("C02", "a type instance with joint_rand_len() == 1 and a verifier message with a different seed", ["C02"]),
    "C03-m1": ("C03", "a correlated-randomness stream containing a rejected chunk inside the skipped region (p = 2^-32 per sample)", ["C11", "C16"]),
    "C03-m2": ("C03", "bits = 65536 and level 65535 (u16 bound off by one in try_from_prefixes)", ["C16", "C07"]),
    "C04-m1": ("C04", "a malicious client at the leaf level (failed zero check turned into Done)", ["C04"]),
    "C04-m2": ("C04", "a Done message delivered while the state is still in sketch round one", ["C04"]),
    "C05-m1": ("C05", "a circuit with > 1 validity outputs and a root-of-unity query point / degenerate compression coefficient", ["C05"]),
    "C05-m2": ("C05", "num_shares >= 256 in the range-check constants (u8 narrowing)", ["C05"]),
    "C07-m1": ("C07", "the one byte string that encodes exactly the modulus", ["C07"]),
    "C07-m2": ("C07", "an IDPF/Poplar1 instance with bits = 1 (mod 4) (encoded_len of the bit-packed public share)", ["C07"]),
    "C08-m1": ("C08", "a length prefix larger than the remaining bytes but not larger than the whole buffer", ["C08"]),
    "C08-m2": ("C08", "a Poplar1 verifier-state encoding with a huge element count (pre-allocation from the wire)", ["C08"]),
    "C09-m1": ("C09", "negating zero (result p instead of 0: breaks Eq/Hash/reducedness only)", ["C09"]),
    "C09-m2": ("C09", "decoding the byte string that encodes exactly p", ["C09"]),
    "C10-m1": ("C10", "evaluating at an interpolation node w^k, k < n-1", ["C10"]),
    "C10-m2": ("C10", "the shifted transform at size 2^20 (SizeTooLarge turned into a panic)", ["C10"]),
    "C11-m1": ("C11", "AES seed stream: a read that straddles one more block boundary than its length implies", ["C11"]),
    "C11-m2": ("C11", "a stream chunk exactly equal to the modulus", ["C11"]),
    "C12-m1": ("C12", ">= 3 rounds and an order-sensitive combiner (helper passes is_leader = true)", ["C12"]),
    "C12-m2": ("C12", "a fresh helper receiving a Continue message in place of Initialize", ["C12"]),
    "C13-m1": ("C13", "a refused wrong-length share followed by further use of the accumulator", ["C13"]),
    "C13-m2": ("C13", "a batch whose first output share does not match the aggregation parameter", ["C13"]),
    "C16-m1": ("C16", "bits*len + chunk_length - 1 overflowing usize in SumVec::new", ["C16"]),
    "C16-m2": ("C16", "input_len in [2^19, 2^20 - 1] (capacity check lost its factor 2)", ["C16"]),
    "C19-m1": ("C19", "a PRNG candidate that is an odd 2n-th root of unity", ["C19"]),
    "C05r2-m1": ("C05", "query randomness of a length other than query_rand_len() on a multi-output circuit (length check dropped, split from the tail)", ["C05"]),
    "C05r2-m2": ("C05", "a gadget query point exactly equal to 0 (wrong fast path in the Lagrange evaluation)", ["C05", "C10"]),
    "C07r2-m1": ("C07", "a Poplar1 aggregation parameter whose highest padding bit of the last prefix byte is set", ["C07"]),
    "C07r2-m2": ("C07", "a PingPongMessage whose last length prefix exceeds the remaining input (silently truncated)", ["C07"]),
    "C09r2-m1": ("C09", "a Field128 product whose pre-subtraction value lies in [p, p + 2^64 - 1) (equal-top-limb case of the final subtraction dropped)", ["C09"]),
    "C09r2-m2": ("C09", "0 raised to the power p - 1 (exponent reduced mod p - 1 in the public pow)", ["C09"]),
    "C10r2-m1": ("C10", "extend_values_to_power_of_2 on a buffer whose tail is not zero (accumulator not reset)", ["C10"]),
    "C10r2-m2": ("C10", "ntt_inv with an input shorter than the transform size (scaling by 1/len instead of 1/size)", ["C10"]),
    "C12r2-m1": ("C12", "a truncated ping-pong frame whose length prefix exceeds the remaining bytes (clamped instead of refused)", ["C12", "C07"]),
    "C12r2-m2": ("C12", ">= 2 rounds and a VDAF whose verifier-share wire format depends on the round (share decoded with the stale state)", ["C12"]),
    "C16r2-m1": ("C16", "an aggregator id >= 256 whose low byte is a valid id (range check after narrowing to u8)", ["C16"]),
    "C16r2-m2": ("C16", "Flp::query with fewer query-randomness elements than validity outputs (split_at panics)", ["C16", "C05"]),
    "C19-m2": ("C19", "input_len of the form 2^k - 1 (aggregator-side domain size)", ["C19"]),
}


def sh(cmd, **kw):
    return subprocess.run(cmd, capture_output=True, text=True, **kw)


def run_seed(sid):
    prop, needs, checks = SEEDS[sid]
    d = os.path.join(V, "seeded", sid)
    ap = sh(["git", "apply", os.path.join(d, "patch.diff")], cwd=REPO)
    res = {"applies": ap.returncode == 0, "runs": []}
    detected_by = []
    try:
        if ap.returncode == 0:
            for c in checks:
                if c not in CLAIMED:
                    continue
                t0 = time.time()
                p = sh([os.path.join(V, "check"), c, "--tier", "quick"], cwd=V, env=dict(os.environ, VERIF_SEEDRUN="1", VERIF_REPO=REPO))
                vio = re.findall(r"^VIOLATION property=(\S+) replay=(\S+)", p.stdout, re.M)
                hs = re.findall(r"^  harness (\S+):", p.stdout, re.M)
                inc = re.findall(r"^INCONCLUSIVE \S+ (\S+):", p.stdout, re.M)
                res["runs"].append({"check": c, "exit": p.returncode, "violations": [v[1] for v in vio], "harnesses": hs,
                                    "inconclusive": inc[:8], "wall_s": round(time.time() - t0)})
                if p.returncode == 1 and vio:
                    detected_by.append(c + ":" + ",".join(hs[:4]))
                    break
    finally:
        if ap.returncode == 0:
            un = sh(["git", "apply", "-R", os.path.join(d, "patch.diff")], cwd=REPO)
            assert un.returncode == 0, "could not undo " + sid
    conf = {}
    cp = os.path.join(d, "confirm.json")
    if os.path.exists(cp):
        conf = json.load(open(cp))
    meta = {
        "seed": sid,
        "breaks_property": prop,
        "needs_to_manifest": needs,
        "origin": "independent sub-agent given only the property text and a scratch worktree; see README.md",
        "confirmed_by_me": {k: conf.get(k) for k in ("confirmed", "repo_head", "demo_clean_rc", "build_rc", "suite", "demo_patched_rc")},
        "what_i_ran": "tools/confirm_seed.py (scratch worktree: demo passes clean, build + pinned suite pass with the patch, demo fails with it); "
                      "tools/run_seeds.py (git apply in /repo, quick checks, git checkout)",
        "checks_run": res["runs"],
        "detected_by": detected_by,
        "detected": bool(detected_by),
    }
    json.dump(meta, open(os.path.join(d, "meta.json"), "w"), indent=1)
    return meta


if __name__ == "__main__":
    ids = sys.argv[1:] or sorted(SEEDS)
    rows = []
    for sid in ids:
        m = run_seed(sid)
        print(sid, "DETECTED" if m["detected"] else "missed", m["detected_by"], [(r["check"], r["exit"]) for r in m["checks_run"]], flush=True)
    # summary table over all metas
    lines = ["| seed | breaks | detected by | notes |", "|---|---|---|---|"]
    for sid in sorted(SEEDS):
        mp = os.path.join(V, "seeded", sid, "meta.json")
        if not os.path.exists(mp):
            continue
        m = json.load(open(mp))
        note = "; ".join(f"{r['check']}: exit {r['exit']}" for r in m["checks_run"])
        lines.append(f"| {sid} | {m['breaks_property']} | {', '.join(m['detected_by']) or '—'} | {note} |")
    open(os.path.join(V, "seeded", "RESULTS.md"), "w").write("\n".join(lines) + "\n")
