#!/usr/bin/env python3
"""Recompute the parameter sets of the hook-only small fields (printed as Rust).
Used once to write the hook in /repo/src/fp.rs; the ground checker (engine G) re-derives
and re-checks every constant from the MIR dump on each run, so this file is not trusted."""
import sys
def params(p, W, base_bits, g_find=True):
    R = 1 << W
    mu = (-pow(p, -1, 1 << base_bits)) % (1 << base_bits)
    r2 = (R * R) % p
    # 2-adicity
    n = 0; m = p - 1
    while m % 2 == 0: m //= 2; n += 1
    # generator of the 2^n subgroup: smallest x with x^m of order 2^n
    g = None
    for x in range(2, p):
        c = pow(x, m, p)
        if pow(c, 1 << (n - 1), p) != 1:
            g = c; break
    num_roots = n
    roots = []
    for l in range(21):
        if l <= n:
            r = pow(g, 1 << (n - l), p)
            roots.append((r * R) % p)
        else:
            roots.append(0)
    half = (pow(2, -1, p) * R) % p
    bitmask = (1 << p.bit_length()) - 1
    return dict(PRIME=p, MU=mu, R2=r2, G=(g * R) % p, NUM_ROOTS=num_roots, BIT_MASK=bitmask, ROOTS=roots, HALF=half)
for name, p, W, bb in [("FP8", 17, 8, 8), ("FP8B", 251, 8, 8), ("FP16", 61441, 16, 16), ("FP16S", 61441, 16, 8), ("FP16T", 65269, 16, 8)]:
    print(name, params(p, W, bb))
