#!/bin/bash
# debugging helper: run one harness directly.  tools/k1.sh <module::name> [timeout_s] [extra kani args...]
H=$1; T=${2:-300}; shift; shift; case "$H" in *verif_harness*) HP="$H";; *) HP="verif_harness::$H";; esac
cd /verif && python3 -c "
from vlib import kani; import os
kani.assemble(os.path.join(kani.CACHE,'hdir'))"
cd /repo && PRIO_VERIF_DIR=/verif/.cache/hdir CARGO_NET_OFFLINE=true timeout $((T+120)) cargo kani --manifest-path /repo/Cargo.toml --target-dir /verif/.cache/kani/dbg -Z stubbing -Z unstable-options --harness-timeout ${T}s --features experimental,test-util,prio_verif --harness "$HP" --exact --output-format terse "$@" 2>&1 | grep -v "^warning\|^ *|\|^ *=\|^$\|^ *-->\|^ *[0-9]* |" | tail -40
