"""./check <property> [--tier quick|thorough] [--replay file]

Verdict protocol (DESIGN.md section 6):
  exit 0  every solver query UNSAT, every vacuity witness SAT, evidence written
  exit 1  + 'VIOLATION property=<id> replay=<path>': solver model that reproduces natively and is not a listed finding
  exit 2  inconclusive (timeout, OOM, solver disagreement, translator mismatch, non-reproducing model)"""
import argparse
import importlib
import json
import os
import sys
import time

from . import kani
from .common import (EVID, EXIT_INCONCLUSIVE, EXIT_OK, EXIT_VIOLATION, Findings, Timer, log, seed,
                     write_evidence, ensure_dirs, VERIF)

DEFAULT_TIMEOUT = {"quick": 420, "thorough": 2400}


def load_prop_module(prop):
    try:
        return importlib.import_module(f"props.{prop.lower()}")
    except ModuleNotFoundError as e:
        if f"props.{prop.lower()}" in str(e):
            return None
        raise


def do_replay(prop, path):
    data = json.load(open(path))
    if data.get("engine") == "M":
        mod = load_prop_module(prop)
        return mod.replay(data)
    tests = data["tests"]
    res, out = kani.native_replay(tests)
    bad = [t for t, r in res.items() if r == "FAILED"]
    log(json.dumps(res, indent=1))
    if bad:
        log(f"VIOLATION property={prop} replay={path}")
        return EXIT_VIOLATION
    log("replay: no test failed natively on the current tree")
    return EXIT_OK


def main(argv=None):
    ap = argparse.ArgumentParser()
    ap.add_argument("prop")
    ap.add_argument("--tier", default=os.environ.get("VERIF_TIER", "quick"), choices=["quick", "thorough"])
    ap.add_argument("--replay")
    ap.add_argument("--only", help="comma-separated harness names (debugging; evidence is still written)")
    ap.add_argument("--keep-logs", action="store_true")
    a = ap.parse_args(argv)
    prop, tier = a.prop.upper(), a.tier
    ensure_dirs()
    sys.path.insert(0, VERIF)
    if a.replay:
        return do_replay(prop, a.replay)

    timer = Timer()
    findings = Findings()
    mod = load_prop_module(prop)

    hs = kani.select(prop, tier)
    if a.only:
        names = set(a.only.split(","))
        hs = [h for h in hs if h.name in names]
    log(f"[{prop}/{tier}] engine K: {len(hs)} harnesses")
    results, logs = kani.run_harnesses(hs, DEFAULT_TIMEOUT[tier])
    logdir = os.path.join(VERIF, ".cache", "logs")
    os.makedirs(logdir, exist_ok=True)
    for slot, tmo, cmd, out, dt in logs:
        with open(os.path.join(logdir, f"{prop}_{tier}_slot{slot}_{tmo}.log"), "w") as f:
            f.write(cmd + "\n" + out)

    # other engines (M: MIR->SMT, G: ground queries) are driven by the property module
    m_results = []
    if mod is not None and hasattr(mod, "run") and not a.only:
        m_results = mod.run(tier)  # list of dicts: name,status(pass/fail/inconclusive),engine,detail,replay(optional)

    violations, known, inconclusive = [], [], []
    hmap = {h.name: h for h in hs}
    samples = []
    n_pass = 0
    solver_time = 0.0
    total_checks = 0
    to_replay = []
    for name in sorted(results):
        r = results[name]
        h = hmap[name]
        total_checks += r["n_checks"]
        solver_time += (r["cbmc"].get("runtime_solver_s") or 0) + (r["cbmc"].get("runtime_symex_s") or 0)
        entry = {"engine": "K", "harness": name, "status": r["status"], "functions": h.meta.get("funcs", ""),
                 "bounds": h.meta.get("bounds", ""), "assumes": h.meta.get("assumes", "none"),
                 "stubs": h.meta.get("stubs", "none"), "asserts": h.meta.get("asserts", ""),
                 "checks": r["n_checks"], "cover_sat": f"{r['n_cover_sat']}/{r['n_cover']}",
                 "duration_s": r["duration_s"], "cbmc": r["cbmc"]}
        if r["status"] == "pass":
            n_pass += 1
        elif r["status"] == "inconclusive":
            entry["reason"] = r["reason"]
            inconclusive.append((name, r["reason"]))
        else:
            unknown, known_here = [], []
            for item in r["failed"]:
                key = kani.finding_key(h, item)
                text = findings.match(prop, key)
                if text is not None:
                    known_here.append((key, text))
                else:
                    unknown.append((key, item))
            known += known_here
            entry["failed_checks"] = [k for k, _ in unknown] + [k + " (known finding)" for k, _ in known_here]
            if unknown:
                to_replay.append((h, unknown, entry))
        samples.append(entry)

    if to_replay:
        log(f"[{prop}] {len(to_replay)} harness(es) with failed checks: extracting counterexamples, replaying natively")
        # counterexamples were printed by the verification run itself; re-run only the harnesses for which none was found
        allout = "\n".join(out for _, _, _, out, _ in logs)
        tests = kani.tests_from_output(allout, [h for h, _, _ in to_replay])
        missing = [h for h, _, _ in to_replay if not tests.get(h.name)]
        if missing:
            tests.update(kani.extract_playback(missing))
        alltests = [t for h, _, _ in to_replay for t in tests.get(h.name, [])]
        res, out = kani.native_replay(alltests)
        with open(os.path.join(logdir, f"{prop}_{tier}_replay.log"), "w") as f:
            f.write(out)
        for h, unknown, entry in to_replay:
            ts = tests.get(h.name, [])
            repro = [t for t in ts if res.get(t["test"]) == "FAILED"]
            rpath = os.path.join(EVID, "replay", f"{prop}-{h.name}.json")
            json.dump({"engine": "K", "property": prop, "harness": h.name,
                       "failed_checks": [dict(key=k, **it) for k, it in unknown],
                       "tests": repro or ts, "native": {t["test"]: res.get(t["test"]) for t in ts}},
                      open(rpath, "w"), indent=1)
            entry["replay"] = rpath
            entry["native_replay"] = {t["test"]: res.get(t["test"]) for t in ts}
            if repro:
                violations.append((h.name, rpath, [k for k, _ in unknown]))
            else:
                inconclusive.append((h.name, "counterexample did not reproduce natively: " + json.dumps(entry["native_replay"])))

    for r in m_results:
        samples.append(r)
        solver_time += r.get("solver_s", 0) or 0
        if r["status"] == "pass":
            n_pass += 1
        elif r["status"] == "inconclusive":
            inconclusive.append((r["name"], r.get("reason", "")))
        elif r["status"] == "fail":
            key = r.get("key", r["name"])
            text = findings.match(prop, key)
            if text is not None:
                known.append((key, text))
            else:
                violations.append((r["name"], r.get("replay", ""), [key]))

    seen = set()
    for key, text in known:
        if key not in seen:
            seen.add(key)
            log(f"KNOWN-FINDING: property={prop} {key} -- {text}")

    n_total = len(results) + len(m_results)
    cov = {
        "evaluations": n_total,
        "distinct_nontrivial": n_pass,
        "rule": "one evaluation = one solver-decided obligation set: a Kani harness (CBMC/CaDiCaL decides all of its "
                "checks over every value of its symbolic inputs within the stated bound) or an engine-M/G SMT query "
                "(z3 5.1 + cvc5 cross-check). Counted as non-trivial only if the verdict was UNSAT for every check AND "
                "every kani::cover! vacuity witness of the harness was satisfiable (measured from the solver export).",
        "obligations": total_checks + sum(r.get("obligations", 1) for r in m_results),
        "solver_time_s": round(solver_time, 2),
        "samples": samples,
        "exhaustive": False,
        "outside_claim": getattr(mod, "OUTSIDE", []) if mod else [],
        "inconclusive": [f"{n}: {why}" for n, why in inconclusive],
        "known_findings": sorted(seen),
    }
    assumptions = list(getattr(mod, "ASSUMPTIONS", [])) if mod else []
    assumptions += [
        "Kani 0.68 / CBMC 6.11 / CaDiCaL are sound for the compiled MIR (trusted base); rustc nightly-2026-08-21 MIR semantics",
        "a harness covers exactly the bound stated in its 'bounds' field; nothing outside it is claimed",
    ]
    if n_total < 2 or n_pass < 2:
        # schema needs >=2 distinct non-trivial cases; fewer means the run is not evidence
        inconclusive.append(("evidence", f"only {n_pass} passing obligations"))
    write_evidence(prop, tier, cov, assumptions, timer.s(), len(violations), partial=bool(a.only) or os.environ.get("VERIF_SEEDRUN") == "1")

    for name, rpath, keys in violations:
        log(f"VIOLATION property={prop} replay={rpath}")
        log(f"  harness {name}: " + ", ".join(keys))
    if violations:
        return EXIT_VIOLATION
    if inconclusive:
        for n, why in inconclusive:
            log(f"INCONCLUSIVE {prop} {n}: {why}")
        return EXIT_INCONCLUSIVE
    log(f"[{prop}/{tier}] OK: {n_pass}/{n_total} obligation sets decided UNSAT in {timer.s():.0f}s")
    return EXIT_OK


if __name__ == "__main__":
    sys.exit(main())
