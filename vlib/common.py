"""Shared helpers: paths, evidence writing, known-findings file, verdict protocol."""
import json
import os
import sys
import time

VERIF = os.path.dirname(os.path.dirname(os.path.abspath(__file__)))
REPO = os.environ.get("VERIF_REPO", "/repo")
CACHE = os.path.join(VERIF, ".cache")
EVID = os.path.join(VERIF, "evidence")
FINDINGS = os.path.join(VERIF, "known_findings.txt")
FEATURES = "experimental,test-util,prio_verif"

EXIT_OK, EXIT_VIOLATION, EXIT_INCONCLUSIVE = 0, 1, 2


def seed():
    try:
        return int(os.environ.get("VERIF_SEED", "0"))
    except ValueError:
        return 0


def log(*a):
    print(*a, flush=True)


def ensure_dirs():
    for d in (CACHE, EVID, os.path.join(EVID, "replay")):
        os.makedirs(d, exist_ok=True)


def base_env():
    env = dict(os.environ)
    env["CARGO_NET_OFFLINE"] = "true"
    env.pop("RUSTFLAGS", None)
    return env


class Findings:
    """known_findings.txt: lines
         open: property=<id> key=<role key> -- <text>
         fixed: property=<id> <commit> <text>
       Only `open:` lines suppress (and only the exact key)."""

    def __init__(self):
        self.open = []  # (prop, key, text)
        self.fixed = []
        if os.path.exists(FINDINGS):
            for ln in open(FINDINGS):
                ln = ln.strip()
                if not ln or ln.startswith("#"):
                    continue
                if ln.startswith("open:"):
                    body = ln[5:].strip()
                    head, _, text = body.partition(" -- ")
                    kv = dict(t.split("=", 1) for t in head.split() if "=" in t)
                    self.open.append((kv.get("property"), kv.get("key"), text))
                elif ln.startswith("fixed:"):
                    self.fixed.append(ln[6:].strip())

    def match(self, prop, key):
        for p, k, text in self.open:
            if p == prop and k == key:
                return text
        return None

    def open_for(self, prop):
        return [(k, t) for p, k, t in self.open if p == prop]


def write_evidence(prop, tier, coverage, assumptions, wall_s, violations, extra=None, partial=False):
    ensure_dirs()
    ev = {
        "property_id": prop,
        "tier": tier,
        "seed": seed(),
        "level": "model_checking",
        "coverage": coverage,
        "assumptions": assumptions,
        "wall_s": round(wall_s, 2),
        "violations": violations,
    }
    if extra:
        ev.update(extra)
    # debugging runs restricted with --only never overwrite the evidence file of the full check
    if partial:
        os.makedirs(os.path.join(CACHE, "evidence_partial"), exist_ok=True)
        path = os.path.join(CACHE, "evidence_partial", f"{prop}.json")
    else:
        path = os.path.join(EVID, f"{prop}.json")
    tmp = path + ".tmp"
    with open(tmp, "w") as f:
        json.dump(ev, f, indent=1, sort_keys=False)
    os.replace(tmp, path)
    return path


class Timer:
    def __init__(self):
        self.t0 = time.time()

    def s(self):
        return time.time() - self.t0
