"""Engine M, part 2: symbolic execution of (straight-line / acyclic) MIR into SMT-LIB2 over mathematical
integers with every machine operation wrapped explicitly (mod 2^k), so wrap-around is modelled exactly.

Values are Python ints when concrete (constant folding) and SMT terms otherwise. Every computed symbolic
value gets its own defined constant (definitional extension) so that formulas stay DAG-sized.

Generic MIR (fp::ops is generic in W): trait-method calls are resolved by the intrinsic table below, which
is part of the trusted base together with rustc's MIR semantics. Closures are inlined from their own MIR.
Anything not understood raises NotEncodable - the caller reports 'inconclusive', never a pass."""
import re

from .mir import split_args, parse_int_const


class NotEncodable(Exception):
    pass


class V:
    __slots__ = ("kind", "term", "bits", "items", "ub", "note")

    def __init__(self, kind, term=None, bits=None, items=None, ub=None, note=None):
        self.kind, self.term, self.bits, self.items, self.ub, self.note = kind, term, bits, items, ub, note

    def concrete(self):
        return self.kind in ("int", "bool") and isinstance(self.term, (int, bool))


def I(term, bits, ub=None):
    if isinstance(term, int):
        return V("int", term, bits, ub=term)
    return V("int", term, bits, ub=(1 << bits) - 1 if ub is None else ub)


def B(term):
    return V("bool", term)


def smt(x):
    if isinstance(x, bool):
        return "true" if x else "false"
    if isinstance(x, int):
        return str(x) if x >= 0 else f"(- {-x})"
    return x


class Exec:
    def __init__(self, funcs, binding, real_mul=True, tag=""):
        """binding: {'W': bits, 'D': bits of DoubleWord or None, 'H': bits of HalfWord or None,
                     'const': {name: int or smt term}}"""
        self.funcs = funcs
        self.bind = binding
        self.real_mul = real_mul
        self.decls = []        # (name, sort)
        self.asserts = []      # definitional equalities and assumptions
        self.obligs = []       # (description, smt formula that must hold)
        self.calls_havocked = []
        self.n = 0
        self.tag = tag
        self.muls = []         # (a_term, b_term, m_name) abstracted products
        self.uf_used = set()

    # -- naming ------------------------------------------------------------------------------
    def fresh(self, hint, sort="Int"):
        self.n += 1
        name = f"{self.tag}{hint}_{self.n}"
        name = re.sub(r"[^A-Za-z0-9_]", "_", name)
        self.decls.append((name, sort))
        return name

    def define(self, hint, term, bits, ub=None):
        if isinstance(term, int):
            return I(term, bits)
        name = self.fresh(hint)
        self.asserts.append(f"(= {name} {term})")
        return I(name, bits, ub)

    def sym_int(self, hint, bits, ub=None):
        name = self.fresh(hint)
        hi = (1 << bits) - 1 if ub is None else ub
        self.asserts.append(f"(and (<= 0 {name}) (<= {name} {hi}))")
        return I(name, bits, hi)

    # -- types -------------------------------------------------------------------------------
    def type_bits(self, ty):
        ty = ty.strip()
        if ty == "W":
            return self.bind["W"]
        if "DoubleWord" in ty:
            return self.bind["D"]
        if "HalfWord" in ty:
            return self.bind["H"]
        m = re.match(r"^u(\d+)$", ty)
        if m:
            return int(m.group(1))
        if ty in ("usize", "u64"):
            return 64
        return None

    def havoc_of_type(self, ty, hint):
        ty = ty.strip()
        if ty == "bool":
            return B(self.fresh(hint, "Bool"))
        if ty.startswith("(") and ty.endswith(")"):
            parts = split_args(ty[1:-1])
            return V("tuple", items=[self.havoc_of_type(p, hint) for p in parts])
        if ty.startswith("{closure@"):
            return V("closure", term=ty)
        if ty.startswith("&"):
            inner = ty[1:].replace("mut ", "").strip()
            return self.havoc_of_type(inner, hint)
        b = self.type_bits(ty)
        if b is None:
            raise NotEncodable(f"cannot havoc a value of type {ty}")
        return self.sym_int(hint, b)

    # -- arithmetic helpers ------------------------------------------------------------------
    def wrap(self, hint, term, bits, ub=None, lb=0, tub=None):
        """value of `term` reduced mod 2^bits. [lb, tub] is the known range of `term` (tub None = unknown)."""
        M = 1 << bits
        if isinstance(term, int):
            return I(term % M, bits)
        if tub is not None and lb >= 0 and tub < M:
            return self.define(hint, term, bits, tub if ub is None else min(ub, tub))
        r = self.fresh(hint)
        q = self.fresh(hint + "_q")
        self.asserts.append(f"(= {term} (+ (* {q} {M}) {r}))")
        self.asserts.append(f"(and (<= 0 {r}) (< {r} {M}))")
        if tub is not None:
            self.asserts.append(f"(and (<= {smt(lb // M)} {q}) (<= {q} {smt(tub // M)}))")
        return I(r, bits, (M - 1) if ub is None else min(ub, M - 1))

    def divpow2(self, hint, v, k, bits):
        """floor(v / 2^k) for a non-negative value"""
        if v.concrete():
            return I(v.term >> k, bits)
        q = self.fresh(hint)
        r = self.fresh(hint + "_r")
        self.asserts.append(f"(= {smt(v.term)} (+ (* {q} {1 << k}) {r}))")
        self.asserts.append(f"(and (<= 0 {r}) (< {r} {1 << k}) (<= 0 {q}) (<= {q} {v.ub >> k}))")
        return I(q, bits, v.ub >> k)

    def lowbits(self, hint, v, k, bits):
        if v.concrete():
            return I(v.term % (1 << k), bits)
        if v.ub < (1 << k):
            return I(v.term, bits, v.ub)
        q = self.fresh(hint + "_q")
        r = self.fresh(hint)
        self.asserts.append(f"(= {smt(v.term)} (+ (* {q} {1 << k}) {r}))")
        self.asserts.append(f"(and (<= 0 {r}) (< {r} {1 << k}) (<= 0 {q}) (<= {q} {v.ub >> k}))")
        return I(r, bits, min(v.ub, (1 << k) - 1))

    def add(self, a, b):
        if isinstance(a.term, int) and isinstance(b.term, int):
            return a.term + b.term
        return f"(+ {smt(a.term)} {smt(b.term)})"

    def sub(self, a, b):
        if isinstance(a.term, int) and isinstance(b.term, int):
            return a.term - b.term
        return f"(- {smt(a.term)} {smt(b.term)})"

    def mul(self, a, b):
        if isinstance(a.term, int) and isinstance(b.term, int):
            return a.term * b.term, a.term * b.term
        if isinstance(a.term, int) or isinstance(b.term, int) or self.real_mul:
            return f"(* {smt(a.term)} {smt(b.term)})", a.ub * b.ub
        # abstract the product of two symbolic values: free value within its exact range
        m = self.fresh("prod")
        ub = a.ub * b.ub
        self.asserts.append(f"(and (<= 0 {m}) (<= {m} {ub}))")
        self.muls.append((a.term, b.term, m))
        return m, ub

    def bitand(self, a, b, bits):
        M = (1 << bits) - 1
        if a.concrete() and b.concrete():
            return I(a.term & b.term, bits)
        for c, s in ((a, b), (b, a)):
            if c.concrete():
                k = c.term
                if k == 0:
                    return I(0, bits)
                if k == M:
                    return s
                if (k + 1) & k == 0:  # 2^j - 1: low bits
                    return self.lowbits("low", s, k.bit_length(), bits)
        # x & mask where mask = 0 - (bool as W) is 0 or all-ones by construction: a selection
        for mk, other in ((a, b), (b, a)):
            if isinstance(mk.note, tuple) and mk.note[0] == "mask":
                r = self.define("sel", f"(ite {mk.note[1]} {smt(other.term)} 0)", bits, other.ub)
                r.note = ("sel", mk.note[1], other)
                return r
        self.uf_used.add("band")
        t = (f"(ite (= {smt(b.term)} 0) 0 (ite (= {smt(b.term)} {M}) {smt(a.term)} "
             f"(ite (= {smt(a.term)} 0) 0 (ite (= {smt(a.term)} {M}) {smt(b.term)} (band {smt(a.term)} {smt(b.term)})))))")
        r = self.define("and", t, bits, min(a.ub, b.ub))
        self.asserts.append(f"(and (<= 0 {r.term}) (<= {r.term} {smt(a.term)}) (<= {r.term} {smt(b.term)}))")
        return r

    def bitor(self, a, b, bits):
        M = (1 << bits) - 1
        if a.concrete() and b.concrete():
            return I(a.term | b.term, bits)
        if not (a.concrete() and b.concrete()) and a.ub <= 1 and b.ub <= 1:
            cond = f"(or (= {smt(a.term)} 1) (= {smt(b.term)} 1))"
            r = self.define("or01", f"(ite {cond} 1 0)", bits, 1)
            r.note = ("b2i", cond)
            return r
        # (x & mask) | (y & !mask): a two-way selection
        if isinstance(a.note, tuple) and isinstance(b.note, tuple) and a.note[0] == "sel" and b.note[0] == "sel" \
                and (b.note[1] == f"(not {a.note[1]})" or a.note[1] == f"(not {b.note[1]})"):
            return self.define("mux", f"(ite {a.note[1]} {smt(a.note[2].term)} {smt(b.note[2].term)})", bits,
                               max(a.note[2].ub, b.note[2].ub))
        # a | b = a + b - (a & b); when b is a multiple of 2^k and a < 2^k the conjunction is empty
        for lo, hi in ((a, b), (b, a)):
            k = getattr(hi, "note", None)
            if isinstance(k, tuple) and k[0] == "shl":
                kk = k[1]
                t = (f"(ite (< {smt(lo.term)} {1 << kk}) (+ {smt(lo.term)} {smt(hi.term)}) "
                     f"(bor {smt(lo.term)} {smt(hi.term)}))")
                self.uf_used.add("bor")
                r = self.define("or", t, bits)
                self.asserts.append(f"(and (<= 0 {r.term}) (<= {r.term} {M}))")
                return r
        an = self.bitand(a, b, bits)
        return self.define("or", f"(- (+ {smt(a.term)} {smt(b.term)}) {smt(an.term)})", bits)

    # -- operands ------------------------------------------------------------------------------
    def const_value(self, text, want_bits=None):
        text = text.strip()
        c = self.bind["const"]
        if text.endswith("FieldParameters<W>>::PRIME"):
            return I(c["PRIME"], self.bind["W"])
        if "FieldMulOpsSplitWord<W>>::MU" in text:
            return I(c["SPLIT_MU"], self.bind["H"])
        if text.endswith("FieldParameters<W>>::MU"):
            return I(c["MU"], self.bind["W"])
        if text.endswith("FieldParameters<W>>::R2"):
            return I(c["R2"], self.bind["W"])
        if text.endswith("ConstZero>::ZERO"):
            return I(0, self.bind["W"])
        if text.endswith("ConstOne>::ONE"):
            return I(1, self.bind["W"])
        if text.endswith("Word>::BITS"):
            return I(self.bind["W"], 64)
        if text in c:
            v = c[text]
            return I(v[0], v[1]) if isinstance(v, tuple) else v
        m = re.match(r"^(\d+)_(u\d+|usize)$", text)
        if m:
            bits = 64 if m.group(2) == "usize" else int(m.group(2)[1:])
            return I(int(m.group(1)), bits)
        if text in ("true", "false"):
            return B(text == "true")
        if text == "()":
            return V("unit")
        if text.startswith("ZeroSized:"):
            return V("closure", term=text)
        raise NotEncodable(f"unknown constant {text}")

    def operand(self, env, text, fn):
        text = text.strip()
        if text.startswith("const "):
            return self.const_value(text[6:])
        if text.startswith("copy ") or text.startswith("move "):
            return self.place(env, text[5:], fn)
        if text.startswith("&"):
            return self.place(env, text[1:].replace("mut ", "").strip(), fn)
        return self.place(env, text, fn)

    def place(self, env, text, fn):
        text = text.strip()
        m = re.match(r"^\((.+)\.(\d+): .+\)$", text)
        if m:
            base = self.place(env, m.group(1), fn)
            if base.kind != "tuple":
                raise NotEncodable(f"field of non-tuple {text}")
            return base.items[int(m.group(2))]
        if text.startswith("(*") and text.endswith(")"):
            return self.place(env, text[2:-1], fn)
        if text.startswith("*"):
            return self.place(env, text[1:], fn)
        if re.match(r"^_\d+$", text):
            if text not in env:
                ty = fn.locals.get(text)
                if ty is None:
                    raise NotEncodable(f"undeclared local {text}")
                env[text] = self.havoc_of_type(ty, f"in{text}")
                self.inputs[text] = env[text]
            return env[text]
        raise NotEncodable(f"place {text}")

    # -- rvalues -------------------------------------------------------------------------------
    def rvalue(self, env, rv, fn, dest_ty):
        rv = rv.strip()
        m = re.match(r"^(\w+)\((.*)\)$", rv)
        if m and m.group(1) in ("Add", "Sub", "Mul", "Div", "Rem", "Eq", "Ne", "Lt", "Le", "Gt", "Ge", "BitAnd", "BitOr",
                                "Shl", "Shr", "AddWithOverflow", "SubWithOverflow", "MulWithOverflow", "Not"):
            ops = [self.operand(env, a, fn) for a in split_args(m.group(2))]
            return self.binop(m.group(1), ops)
        if rv.startswith("(") and rv.endswith(")") and not re.match(r"^\(.+\.\d+: .+\)$", rv):
            inner = rv[1:-1].rstrip(",")
            return V("tuple", items=[self.operand(env, a, fn) for a in split_args(inner)])
        m = re.match(r"^(.*) as (\w+) \(IntToInt\)$", rv)
        if m:
            v = self.operand(env, m.group(1), fn)
            b = self.type_bits(m.group(2))
            return self.cast(v, b)
        return self.operand(env, rv, fn)

    def cast(self, v, bits):
        if v.kind == "bool":
            if isinstance(v.term, bool):
                return I(int(v.term), bits)
            r = self.define("b2i", f"(ite {v.term} 1 0)", bits, 1)
            r.note = ("b2i", v.term)
            return r
        if v.concrete():
            return I(v.term % (1 << bits), bits)
        if v.ub < (1 << bits):
            return I(v.term, bits, v.ub)
        return self.lowbits("cast", v, bits, bits)

    def binop(self, op, ops):
        a = ops[0]
        b = ops[1] if len(ops) > 1 else None
        bits = a.bits
        if op in ("Eq", "Ne", "Lt", "Le", "Gt", "Ge"):
            sy = {"Eq": "=", "Ne": "distinct", "Lt": "<", "Le": "<=", "Gt": ">", "Ge": ">="}[op]
            if a.concrete() and b.concrete():
                return B({"Eq": a.term == b.term, "Ne": a.term != b.term, "Lt": a.term < b.term, "Le": a.term <= b.term,
                          "Gt": a.term > b.term, "Ge": a.term >= b.term}[op])
            return B(f"({sy} {smt(a.term)} {smt(b.term)})")
        if op == "Div":
            if b.concrete() and b.term != 0:
                if a.concrete():
                    return I(a.term // b.term, bits)
                if b.term & (b.term - 1) == 0:
                    return self.divpow2("div", a, b.term.bit_length() - 1, bits)
                return self.define("div", f"(div {smt(a.term)} {b.term})", bits, a.ub // b.term)
            raise NotEncodable("division by a symbolic value")
        if op in ("AddWithOverflow", "SubWithOverflow", "MulWithOverflow"):
            M = 1 << bits
            if op[0] == "A":
                t = self.add(a, b)
                ov = (t >= M) if isinstance(t, int) else f"(>= {t} {M})"
            elif op[0] == "S":
                t = self.sub(a, b)
                ov = (t < 0) if isinstance(t, int) else f"(< {t} 0)"
            else:
                t, _ = self.mul(a, b)
                ov = (t >= M) if isinstance(t, int) else f"(>= {t} {M})"
            rng = {"A": (0, a.ub + b.ub), "S": (-b.ub, a.ub), "M": (0, a.ub * b.ub)}[op[0]]
            return V("tuple", items=[self.wrap("wo", t, bits, lb=rng[0], tub=rng[1]), B(ov)])
        raise NotEncodable(f"binop {op}")

    # -- calls (intrinsic table) -------------------------------------------------------------------
    def call(self, env, func, args_text, fn, dest_ty):
        args = [self.operand(env, a, fn) for a in split_args(args_text)]
        f = func.strip()
        W = self.bind["W"]

        def tb():  # bit width of the Self type of `<T as Trait>::m` (T may itself contain `<.. as ..>`)
            recv = None
            if f.startswith("<"):
                depth = 0
                for i, ch in enumerate(f):
                    if ch == "<":
                        depth += 1
                    elif ch == ">":
                        depth -= 1
                    elif depth == 1 and f.startswith(" as ", i):
                        recv = f[1:i]
                        break
            b = self.type_bits(recv) if recv else None
            if b is None:
                raise NotEncodable(f"receiver type of {f}")
            return b

        if "::call" in f and f.startswith("<{closure@"):
            span = re.match(r"^<(\{closure@[^}]+\})", f).group(1)
            targ = args[1]
            if targ.kind != "tuple":
                raise NotEncodable("closure call argument")
            return self.inline_closure(fn, span, targ.items)
        if f.endswith("OverflowingAdd>::overflowing_add"):
            b = tb()
            t = self.add(args[0], args[1])
            ov = (t >= (1 << b)) if isinstance(t, int) else f"(>= {t} {1 << b})"
            return V("tuple", items=[self.wrap("oadd", t, b, tub=args[0].ub + args[1].ub), B(ov)])
        if f.endswith("OverflowingSub>::overflowing_sub"):
            b = tb()
            t = self.sub(args[0], args[1])
            ov = (t < 0) if isinstance(t, int) else f"(< {t} 0)"
            return V("tuple", items=[self.wrap("osub", t, b, lb=-args[1].ub, tub=args[0].ub), B(ov)])
        if f.endswith("WrappingAdd>::wrapping_add"):
            return self.wrap("wadd", self.add(args[0], args[1]), tb(), tub=args[0].ub + args[1].ub)
        if f.endswith("WrappingSub>::wrapping_sub"):
            b = tb()
            r = self.wrap("wsub", self.sub(args[0], args[1]), b, lb=-args[1].ub, tub=args[0].ub)
            if args[0].concrete() and args[0].term == 0 and isinstance(args[1].note, tuple) and args[1].note[0] == "b2i":
                r.note = ("mask", args[1].note[1])  # 0 - (bool as W): 0 or 2^W - 1
            elif args[0].concrete() and args[0].term == 0 and not args[1].concrete() and args[1].ub <= 1:
                r.note = ("mask", f"(= {smt(args[1].term)} 1)")  # 0 - v with v in {0,1}
            return r
        if f.endswith("WrappingMul>::wrapping_mul"):
            t, ub = self.mul(args[0], args[1])
            return self.wrap("wmul", t, tb(), tub=ub)
        if re.search(r" as (std::ops::)?(Add|Sub|Mul)>::(add|sub|mul)$", f):
            b = tb()
            opn = f.rsplit("::", 1)[1]
            if opn == "add":
                t, ub = self.add(args[0], args[1]), args[0].ub + args[1].ub
                ok = None if isinstance(t, int) and t < (1 << b) else f"(< {smt(t)} {1 << b})"
            elif opn == "sub":
                t, ub = self.sub(args[0], args[1]), args[0].ub
                ok = None if isinstance(t, int) and t >= 0 else f"(>= {smt(t)} 0)"
            else:
                t, ub = self.mul(args[0], args[1])
                ok = None if isinstance(t, int) and t < (1 << b) else f"(< {smt(t)} {1 << b})"
            if isinstance(t, int) and not (0 <= t < (1 << b)):
                self.obligs.append((f"{opn} on {b}-bit values does not overflow (debug build panics, release wraps)", "false"))
            elif ok is not None:
                self.obligs.append((f"{opn} on {b}-bit values does not overflow (debug build panics, release wraps)", ok))
            lo = -args[1].ub if opn == "sub" else 0
            return self.wrap(opn, t, b, lb=lo, tub=ub)
        if f.endswith("BitAnd>::bitand"):
            return self.bitand(args[0], args[1], tb())
        if f.endswith("BitOr>::bitor"):
            return self.bitor(args[0], args[1], tb())
        if f.endswith("Not>::not"):
            b = tb()
            M = (1 << b) - 1
            if args[0].concrete():
                return I(M - args[0].term, b)
            r = self.define("not", f"(- {M} {smt(args[0].term)})", b)
            if isinstance(args[0].note, tuple) and args[0].note[0] == "mask":
                r.note = ("mask", f"(not {args[0].note[1]})")
            return r
        if f.endswith("Shr<usize>>::shr") or f.endswith("Shl<usize>>::shl"):
            b = tb()
            if not args[1].concrete():
                raise NotEncodable("shift by a symbolic amount")
            k = args[1].term
            if k >= b:
                self.obligs.append(("shift amount below the bit width", "false"))
            if f.endswith("shr"):
                if args[0].concrete():
                    return I(args[0].term >> k, b)
                return self.divpow2("shr", args[0], k, b)
            if args[0].concrete():
                return I((args[0].term << k) % (1 << b), b)
            r = self.wrap("shl", f"(* {smt(args[0].term)} {1 << k})", b, tub=args[0].ub << k)
            r.note = ("shl", k)
            return r
        mcmp = re.search(r" as (?:std::cmp::)?Partial(Ord|Eq)>::(gt|ge|lt|le|eq|ne)$", f)
        if mcmp:
            sy = {"gt": ">", "ge": ">=", "lt": "<", "le": "<=", "eq": "=", "ne": "distinct"}[mcmp.group(2)]
            a, b = args[0], args[1]
            if a.concrete() and b.concrete():
                return B({"gt": a.term > b.term, "ge": a.term >= b.term, "lt": a.term < b.term, "le": a.term <= b.term,
                          "eq": a.term == b.term, "ne": a.term != b.term}[mcmp.group(2)])
            return B(f"({sy} {smt(a.term)} {smt(b.term)})")
        if f.endswith("From<bool>>::from"):
            return self.cast(args[0], tb())
        if re.search(r"AsPrimitive<.*>>::as_$", f):
            m = re.match(r"^<(.+) as (?:num_traits::)?AsPrimitive<(.+)>>::as_$", f)
            to = self.type_bits(m.group(2))
            if to is None:
                raise NotEncodable(f"target of {f}")
            return self.cast(args[0], to)
        # same-crate callee with an encodable straight-line body: inline
        callee = re.sub(r"^<Self as (?:fp::ops::)?(FieldOps|FieldMulOpsSingleWord|FieldMulOpsSplitWord)<W>>::", r"\1::", f)
        if callee in self.funcs:
            return self.run(self.funcs[callee][0], args)
        raise NotEncodable(f"call to {f}")

    def inline_closure(self, fn, span, argvals):
        for name, fl in self.funcs.items():
            if name.startswith(fn.name + "::{closure#"):
                for c in fl:
                    if c.args and span in c.args[0][1]:
                        return self.run(c, [V("closure", term=span)] + argvals)
        raise NotEncodable(f"closure body for {span} not found")

    # -- driver --------------------------------------------------------------------------------
    def run(self, fn, args=None, env=None, start=0, stop_at=None):
        """Execute fn from block `start` following the unique successor. Stops at `return` (returns _0) or when
        about to enter block `stop_at` (returns the environment)."""
        outer_inputs = getattr(self, "inputs", None)
        if env is None:
            env = {}
            self.inputs = {}
            if args is not None:
                for (l, _), v in zip(fn.args, args):
                    env[l] = v
        # positions are (block, statement index); a bare block number means its first statement
        cur, first_stmt = (start if isinstance(start, tuple) else (start, 0))
        stop = None if stop_at is None else (stop_at if isinstance(stop_at, tuple) else (stop_at, 0))
        steps = 0
        while True:
            steps += 1
            if steps > 5000:
                raise NotEncodable("block budget exceeded (loop?)")
            blk = fn.blocks[cur]
            stopped = False
            for si, (dest, rv) in enumerate(blk.stmts):
                if si < first_stmt:
                    continue
                if stop is not None and (cur, si) == stop:
                    stopped = True
                    break
                if dest is None:
                    raise NotEncodable(f"statement {rv}")
                val = self.rvalue(env, rv, fn, fn.locals.get(dest))
                self.assign(env, dest, val, fn)
            if stopped or (stop is not None and stop == (cur, len(blk.stmts)) ):
                return env
            if stop is not None and stop[0] == cur and stop[1] == 0 and not blk.stmts:
                return env
            first_stmt = 0
            t = blk.term
            if t[0] == "return":
                if outer_inputs is not None:
                    self.inputs = outer_inputs
                return env.get("_0")
            if t[0] == "goto":
                cur = t[1]
            elif t[0] == "call":
                val = self.call(env, t[2], t[3], fn, fn.locals.get(t[1]))
                self.assign(env, t[1], val, fn)
                cur = t[4]
            elif t[0] == "assert":
                cond = t[1]
                neg = cond.startswith("!")
                v = self.operand(env, cond[1:] if neg else cond, fn)
                if v.kind != "bool":
                    raise NotEncodable("assert on non-bool")
                if isinstance(v.term, bool):
                    holds = (not v.term) if neg else v.term
                    if not holds:
                        self.obligs.append((f"MIR assert: {t[2]}", "false"))
                else:
                    self.obligs.append((f"MIR assert: {t[2]}", f"(not {v.term})" if neg else v.term))
                cur = t[3]
            else:
                raise NotEncodable(f"terminator {t}")

    def assign(self, env, dest, val, fn):
        dest = dest.strip()
        if re.match(r"^_\d+$", dest):
            env[dest] = val
            return
        raise NotEncodable(f"assignment to {dest}")

    # -- SMT text ----------------------------------------------------------------------------------
    def script(self, extra_decls=(), assumptions=(), goal=None):
        lines = ["(set-logic ALL)"]
        if self.uf_used:
            for u in sorted(self.uf_used):
                lines.append(f"(declare-fun {u} (Int Int) Int)")
        for n, s in self.decls:
            lines.append(f"(declare-const {n} {s})")
        for n, s in extra_decls:
            lines.append(f"(declare-const {n} {s})")
        for a in self.asserts:
            lines.append(f"(assert {a})")
        for a in assumptions:
            lines.append(f"(assert {a})")
        if goal is not None:
            lines.append(f"(assert (not {goal}))")
        lines.append("(check-sat)")
        return "\n".join(lines) + "\n"
