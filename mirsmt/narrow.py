"""Engine M, narrow-width arithmetic pass: every checked arithmetic operation on u8/u16/u32 values in the protocol
modules must be overflow-free for *all* values its operands can take. Operand ranges are derived from the MIR by a
backward interval slice (constants, casts, remainders, checked results, type ranges for loads and call results); no
path condition is used, so 'proved' is sound and 'unproved' is only a candidate that must be replayed natively.
Word-sized (usize/u64/u128) arithmetic is outside this pass (it needs size invariants) - stated in the evidence."""
import re

from .mir import split_args, parse_int_const

SCOPE = re.compile(r"^(poplar1|idpf|prio3|prio2|codec|flp|topology|vdaf|xof|ping_pong|types|gadgets|client|server|l1boundsum)\b|"
                   r"^<impl at src/(vdaf|idpf|codec|flp|topology)")
NARROW = {"u8": 8, "u16": 16, "u32": 32}


def type_range(ty):
    ty = ty.strip()
    m = re.match(r"^u(\d+)$", ty)
    if m:
        return (0, (1 << int(m.group(1))) - 1)
    if ty == "usize":
        return (0, (1 << 64) - 1)
    if ty == "bool":
        return (0, 1)
    return None


class Slice:
    def __init__(self, fn):
        self.fn = fn
        self.defs = {}
        for b in fn.blocks.values():
            for d, rv in b.stmts:
                if d and re.match(r"^_\d+$", d):
                    self.defs.setdefault(d, []).append(("stmt", rv))
            t = b.term
            if t and t[0] == "call" and re.match(r"^_\d+$", t[1]):
                self.defs.setdefault(t[1], []).append(("call", t[2], t[3]))

    def local_range(self, l, depth):
        ty = self.fn.locals.get(l, "")
        tr = type_range(ty)
        ds = self.defs.get(l, [])
        if len(ds) != 1 or depth > 8:
            return tr
        d = ds[0]
        if d[0] == "call":
            if d[1].endswith("leading_zeros") or d[1].endswith("trailing_zeros"):
                return (0, 128)
            return tr
        r = self.rvalue_range(d[1], depth + 1)
        if r is None:
            return tr
        if tr is None:
            return r
        return (max(r[0], tr[0]), min(r[1], tr[1]))

    def operand_range(self, op, depth=0):
        op = op.strip()
        if op.startswith("const "):
            c = op[6:].strip()
            v = parse_int_const(c)
            if v is not None:
                return (v, v)
            m = re.match(r"^core::num::<impl u(\d+)>::BITS$", c)
            if m:
                return (int(m.group(1)), int(m.group(1)))
            m = re.match(r"^core::num::<impl u(\d+)>::MAX$", c)
            if m:
                return ((1 << int(m.group(1))) - 1,) * 2
            return None
        if op.startswith("copy ") or op.startswith("move "):
            pl = op[5:].strip()
            if re.match(r"^_\d+$", pl):
                return self.local_range(pl, depth)
            m = re.match(r"^\((_\d+)\.0: (u\d+|usize)\)$", pl)
            if m:
                # checked result of an AddWithOverflow etc.: value of the operation when it did not overflow
                ds = self.defs.get(m.group(1), [])
                if len(ds) == 1 and ds[0][0] == "stmt":
                    r = self.rvalue_range(ds[0][1], depth + 1)
                    tr = type_range(m.group(2))
                    if r and tr:
                        return (max(r[0], tr[0]), min(r[1], tr[1]))
                return type_range(m.group(2))
            m = re.search(r": (u\d+|usize|bool)\)$", pl)
            if m:
                return type_range(m.group(1))
        return None

    def rvalue_range(self, rv, depth):
        rv = rv.strip()
        m = re.match(r"^(\w+)\((.*)\)$", rv)
        if m and m.group(1) in ("Add", "Sub", "Mul", "AddWithOverflow", "SubWithOverflow", "MulWithOverflow", "Rem", "Div", "BitAnd", "Shr"):
            ops = [self.operand_range(a, depth) for a in split_args(m.group(2))]
            if any(o is None for o in ops) or len(ops) != 2:
                return None
            (a0, a1), (b0, b1) = ops
            k = m.group(1)
            if k.startswith("Add"):
                return (a0 + b0, a1 + b1)
            if k.startswith("Sub"):
                return (a0 - b1, a1 - b0)
            if k.startswith("Mul"):
                return (a0 * b0, a1 * b1)
            if k == "Rem" and b0 == b1 and b0 > 0:
                return (0, min(a1, b0 - 1))
            if k == "Div" and b0 == b1 and b0 > 0:
                return (a0 // b0, a1 // b0)
            if k == "BitAnd":
                return (0, min(a1, b1))
            if k == "Shr" and b0 == b1:
                return (a0 >> b0, a1 >> b0)
            return None
        m = re.match(r"^(.*) as (u\d+|usize) \(IntToInt\)$", rv)
        if m:
            r = self.operand_range(m.group(1), depth)
            tr = type_range(m.group(2))
            if r and tr and r[0] >= tr[0] and r[1] <= tr[1]:
                return r
            return tr
        return self.operand_range(rv, depth)


def scan(funcs):
    """yield one record per narrow-width checked operation in scope"""
    out = []
    for name, fl in funcs.items():
        if not SCOPE.search(name):
            continue
        for fn in fl:
            sl = None
            for bi, b in fn.blocks.items():
                for d, rv in b.stmts:
                    m = re.match(r"^(Add|Sub|Mul)WithOverflow\((.*)\)$", rv.strip())
                    if not m or not d:
                        continue
                    ty = fn.locals.get(d, "")
                    mt = re.match(r"^\((u\d+), bool\)$", ty)
                    if not mt or mt.group(1) not in NARROW:
                        continue
                    if sl is None:
                        sl = Slice(fn)
                    ops = split_args(m.group(2))
                    ra, rb = sl.operand_range(ops[0]), sl.operand_range(ops[1])
                    bits = NARROW[mt.group(1)]
                    tr = (0, (1 << bits) - 1)
                    ra = ra or tr
                    rb = rb or tr
                    out.append({"function": name, "block": bi, "op": m.group(1), "type": mt.group(1), "stmt": rv.strip(),
                                "a": ra, "b": rb, "bits": bits})
    return out


def obligation_smt(rec):
    """negated no-overflow obligation over the operand intervals (SAT = an overflowing pair exists)"""
    (a0, a1), (b0, b1) = rec["a"], rec["b"]
    M = (1 << rec["bits"]) - 1
    cond = {"Add": f"(> (+ a b) {M})", "Sub": "(< (- a b) 0)", "Mul": f"(> (* a b) {M})"}[rec["op"]]
    return ("(set-logic ALL)\n(declare-const a Int)(declare-const b Int)\n"
            f"(assert (and (<= {a0} a) (<= a {a1}) (<= {b0} b) (<= b {b1})))\n(assert {cond})\n(check-sat)\n")
