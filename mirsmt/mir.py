"""Engine M, part 1: obtain rustc's MIR for /repo's current working tree and parse the textual dump into
functions / basic blocks / statements. Only the MIR subset that the checked functions use is understood;
anything else is kept as an opaque statement and makes the symbolic executor refuse the function
("not encodable") instead of silently skipping it."""
import os
import re
import subprocess
import time

from vlib.common import CACHE, FEATURES, REPO, base_env

MIR_DIR = os.path.join(CACHE, "mir")


def dump_mir(force=True):
    """cargo +nightly rustc -- -Zunpretty=mir on the current tree (regenerated on every run)."""
    os.makedirs(MIR_DIR, exist_ok=True)
    out = os.path.join(MIR_DIR, "prio.mir")
    env = base_env()
    env["CARGO_TARGET_DIR"] = os.path.join(MIR_DIR, "target")
    # rustc only re-emits when the crate is rebuilt: bump the mtime of lib.rs in cargo's eyes by cleaning the fingerprint
    subprocess.run(["cargo", "+nightly", "clean", "--offline", "-p", "prio"], cwd=REPO, env=env,
                   capture_output=True, text=True)
    t0 = time.time()
    with open(out, "w") as fh:
        p = subprocess.run(["cargo", "+nightly", "rustc", "--offline", "--lib", "--features", FEATURES, "--",
                            "-Zunpretty=mir", "-C", "debug-assertions=off", "-C", "overflow-checks=on"],
                           cwd=REPO, env=env, stdout=fh, stderr=subprocess.PIPE, text=True)
    if p.returncode != 0 or os.path.getsize(out) < 100000:
        raise RuntimeError("MIR dump failed: " + p.stderr[-2000:])
    return out, time.time() - t0


class Block:
    def __init__(self, idx):
        self.idx = idx
        self.stmts = []   # list of (dest, rvalue_text)
        self.term = None  # ("return",) | ("goto", bb) | ("call", dest, func, args_text, bb) | ("assert", cond, msg, bb) | ("switch", op, [(val, bb)], otherwise) | ("other", text)


class Func:
    def __init__(self, name, header):
        self.name = name
        self.header = header
        self.args = []      # [(local, type)]
        self.ret = None
        self.locals = {}    # local -> type string
        self.debug = {}     # source name -> local   (last binding wins; also kept as list)
        self.debug_all = []
        self.blocks = {}
        self.text = []


FN_RE = re.compile(r"^fn (.+?)\((.*)\) -> (.+) \{$")
LET_RE = re.compile(r"^\s*let (?:mut )?(_\d+): (.+);$")
DBG_RE = re.compile(r"^\s*debug (\w+) => (.+);$")
BB_RE = re.compile(r"^    bb(\d+)(?: \(cleanup\))?: \{$")


def split_args(s):
    """split on top-level commas"""
    out, depth, cur = [], 0, ""
    for ch in s:
        if ch in "(<[{":
            depth += 1
        elif ch in ")>]}":
            depth -= 1
        if ch == "," and depth == 0:
            out.append(cur.strip())
            cur = ""
        else:
            cur += ch
    if cur.strip():
        out.append(cur.strip())
    return out


def parse(path):
    funcs = {}
    consts = {}
    cur = None
    blk = None
    for raw in open(path):
        line = raw.rstrip("\n")
        if cur is None:
            m = FN_RE.match(line)
            if m:
                cur = Func(m.group(1), line)
                for a in split_args(m.group(2)):
                    if ": " in a:
                        l, t = a.split(": ", 1)
                        cur.args.append((l.strip(), t.strip()))
                        cur.locals[l.strip()] = t.strip()
                cur.ret = m.group(3)
                cur.locals["_0"] = cur.ret
                continue
            mc = re.match(r"^const (.+::\w+): ([^=]+?) = const (.+);$", line)
            if mc:
                consts[mc.group(1)] = (mc.group(2), mc.group(3))
                continue
            mc = re.match(r"^const (.+::\w+): (\[.+\]) = \{$", line)
            if mc:
                cur = Func("const " + mc.group(1), line)
                cur.ret = mc.group(2)
                cur.is_const = True
                continue
            continue
        cur.text.append(line)
        if line == "}":
            funcs.setdefault(cur.name, []).append(cur)
            cur, blk = None, None
            continue
        m = LET_RE.match(line)
        if m and blk is None:
            cur.locals[m.group(1)] = m.group(2)
            continue
        m = DBG_RE.match(line)
        if m:
            cur.debug[m.group(1)] = m.group(2)
            cur.debug_all.append((m.group(1), m.group(2)))
            continue
        m = BB_RE.match(line)
        if m:
            blk = Block(int(m.group(1)))
            cur.blocks[blk.idx] = blk
            continue
        if blk is None:
            continue
        s = line.strip()
        if s == "}":
            blk = None
            continue
        if not s or s.startswith("//") or s.startswith("StorageLive") or s.startswith("StorageDead") \
                or s.startswith("FakeRead") or s.startswith("nop") or s.startswith("PlaceMention"):
            continue
        if s == "return;":
            blk.term = ("return",)
        elif s.startswith("goto -> "):
            blk.term = ("goto", int(s[len("goto -> bb"):-1]))
        elif s.startswith("assert("):
            m = re.match(r"assert\((.*?), \"(.*?)\".*\) -> \[success: bb(\d+)", s)
            if m:
                blk.term = ("assert", m.group(1), m.group(2), int(m.group(3)))
            else:
                blk.term = ("other", s)
        elif s.startswith("switchInt("):
            m = re.match(r"switchInt\((.*)\) -> \[(.*)\];", s)
            arms, other = [], None
            for a in m.group(2).split(", "):
                k, v = a.split(": ")
                if k == "otherwise":
                    other = int(v[2:])
                else:
                    arms.append((k, int(v[2:])))
            blk.term = ("switch", m.group(1), arms, other)
        elif " -> [return: bb" in s and " = " in s:
            m = re.match(r"(\S+) = (.*)\((.*)\) -> \[return: bb(\d+)", s)
            if m:
                blk.term = ("call", m.group(1), m.group(2), m.group(3), int(m.group(4)))
            else:
                blk.term = ("other", s)
        elif s.startswith("drop(") or s.startswith("unreachable") or s.startswith("resume") or " -> " in s:
            blk.term = ("other", s)
        else:
            m = re.match(r"(.+?) = (.*);$", s)
            if m:
                blk.stmts.append((m.group(1), m.group(2)))
            else:
                blk.stmts.append((None, s))
    return funcs, consts


def field_param_sets(consts, repo=REPO):
    """{struct name: {PRIME, MU, R2, G, NUM_ROOTS, BIT_MASK, HALF, ROOTS, word_bits, kind, other_bits}} read from the
    MIR const items; the impl -> struct association and the single/split-word macro arguments are read from src/fp.rs."""
    src = open(os.path.join(repo, "src", "fp.rs")).read().split("\n")
    sets = {}
    macro = {}
    for ln in src:
        m = re.search(r"impl_field_ops_(single|split)_word!\((\w+), (u\d+), (u\d+)\)", ln)
        if m:
            macro[m.group(2)] = (m.group(1), int(m.group(3)[1:]), int(m.group(4)[1:]))
    for key, (ty, val) in consts.items():
        m = re.match(r"(?:fp|verif_params)::<impl at src/fp\.rs:(\d+):\d+: \d+:\d+>::(\w+)$", key)
        if not m:
            continue
        line = src[int(m.group(1)) - 1]
        ms = re.search(r"impl FieldParameters<(u\d+)> for (\w+)", line)
        if not ms:
            continue
        name = ms.group(2)
        d = sets.setdefault(name, {"word_bits": int(ms.group(1)[1:])})
        d[m.group(2)] = parse_int_const(val)
    return sets, macro


def parse_int_const(v):
    v = v.strip()
    m = re.match(r"^(\d+)_[ui]\d+$|^(\d+)_usize$", v)
    if m:
        return int(m.group(1) or m.group(2))
    m = re.match(r"^u(\d+)::MAX$", v)
    if m:
        return (1 << int(m.group(1))) - 1
    m = re.match(r"^(\d+)$", v)
    if m:
        return int(v)
    return None


def roots_of(funcs, struct_line_key):
    """ROOTS arrays are const *functions* in the dump."""
    out = {}
    for name, fl in funcs.items():
        m = re.match(r"const (?:fp|verif_params)::<impl at src/fp\.rs:(\d+):\d+: \d+:\d+>::ROOTS$", name)
        if not m:
            continue
        for f in fl:
            for b in f.blocks.values():
                for d, rv in b.stmts:
                    if d == "_0" and rv.startswith("["):
                        vals = [parse_int_const(x.replace("const ", "")) for x in split_args(rv[1:-1])]
                        out[int(m.group(1))] = vals
    return out
