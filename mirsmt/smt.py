"""Engine M, part 3: discharge a query with z3 5.1 and cvc5 1.0.3. Both must agree; any `(error` line,
a disagreement, `unknown` or a timeout is reported as inconclusive (never as a pass)."""
import re
import subprocess
import time

Z3 = "z3-new"
CVC5 = "cvc5"


def _run(cmd, script, timeout):
    t0 = time.time()
    try:
        p = subprocess.run(cmd, input=script, capture_output=True, text=True, timeout=timeout + 5)
        out = p.stdout + p.stderr
    except subprocess.TimeoutExpired:
        return "timeout", "", time.time() - t0
    dt = time.time() - t0
    if "(error" in out:
        return "error", out, dt
    first = out.strip().split("\n")[0].strip() if out.strip() else ""
    if first == "timeout" or "interrupted by timeout" in out:
        return "timeout", out, dt
    if first in ("sat", "unsat", "unknown"):
        return first, out, dt
    return "error", out, dt


def _classify(out):
    first = out.strip().split("\n")[0].strip() if out.strip() else ""
    if first in ("sat", "unsat", "unknown"):
        # an (error after the verdict can only come from get-value after unsat; errors before it come first
        return first
    if "(error" in out:
        return "error"
    if first == "timeout" or "interrupted by timeout" in out:
        return "timeout"
    return "error" if out.strip() else "timeout"


def check(script, timeout=60, want_model_of=(), cross_timeout=None, grace=8):
    """Both solvers run concurrently on the same query. As soon as one returns sat/unsat the other gets `grace` more
    seconds (cross-check) and is then stopped. verdict: 'unsat'/'sat' if at least one solver decides and the other does
    not contradict (its timeout is recorded, not hidden); 'inconclusive' on disagreement, (error lines or no decision."""
    import tempfile
    s = script
    if want_model_of:
        s = s + "(get-value (" + " ".join(want_model_of) + "))\n"
    f = tempfile.NamedTemporaryFile("w", suffix=".smt2", delete=False)
    f.write(s)
    f.close()
    t0 = time.time()
    procs = {
        "z3": subprocess.Popen([Z3, f"-T:{int(timeout)}", f.name], stdout=subprocess.PIPE, stderr=subprocess.STDOUT, text=True),
        "cvc5": subprocess.Popen([CVC5, "--lang", "smt2", f"--tlimit={int(timeout * 1000)}", "--produce-models", f.name],
                                 stdout=subprocess.PIPE, stderr=subprocess.STDOUT, text=True),
    }
    outs, done_at = {}, {}
    deadline = t0 + timeout + 5
    first_decided = None
    while len(outs) < 2:
        for k, p in procs.items():
            if k not in outs and p.poll() is not None:
                outs[k] = p.stdout.read()
                done_at[k] = time.time() - t0
                if first_decided is None and _classify(outs[k]) in ("sat", "unsat"):
                    first_decided = time.time()
        now = time.time()
        if len(outs) < 2 and ((first_decided is not None and now > first_decided + grace) or now > deadline):
            for k, p in procs.items():
                if k not in outs:
                    p.kill()
                    outs[k] = "timeout"
                    done_at[k] = now - t0
            break
        time.sleep(0.02)
    try:
        import os as _os
        _os.unlink(f.name)
    except OSError:
        pass
    rzv, rcv = _classify(outs["z3"]), _classify(outs["cvc5"])
    oz, oc = outs["z3"], outs["cvc5"]
    decided = [done_at[k] for k in ("z3", "cvc5") if _classify(outs[k]) in ("sat", "unsat")]
    res = {"z3": rzv, "cvc5": rcv, "time": round(min(decided) if decided else max(done_at.values()), 3), "model": {}}
    verdicts = {rzv, rcv} - {"timeout", "unknown"}
    if "error" in verdicts:
        res["verdict"] = "inconclusive"
        res["detail"] = (oz + oc)[-400:]
    elif verdicts == {"unsat"}:
        res["verdict"] = "unsat"
    elif verdicts == {"sat"}:
        res["verdict"] = "sat"
        src = oz if rzv == "sat" else oc
        for name, val in re.findall(r"\((\w+) (\(- \d+\)|\d+|true|false)\)", src):
            if val.startswith("(-"):
                v = -int(val[3:-1])
            elif val in ("true", "false"):
                v = val == "true"
            else:
                v = int(val)
            res["model"][name] = v
    else:
        res["verdict"] = "inconclusive"
        res["detail"] = f"z3={rzv} cvc5={rcv}"
    return res
