OUTSIDE = [
    "share-linearity of query (an identity in >= 10 field variables)",
    "soundness as a probability bound; only the deterministic pieces (valid = specified circuit, decide = reference predicate) are decided",
    "prove/query for circuits other than Count (completeness harness) and Histogram(2,1) (root-of-unity refusal); ParallelSumMultithreaded; HigherDegree test type",
    "parameters beyond the small GF(17) instances listed per harness",
]
ASSUMPTIONS = ["GF(17) (and GF(61441) for the share-count scaling harness) hook instantiations stand in for the shipped fields; the arithmetic they are built on is C09's subject"]
