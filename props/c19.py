OUTSIDE = [
    "client proof generation (ClientMemory is hard-wired to an AES-CTR Prng), acceptance of honest reports end to end, soundness against non-binary vectors",
    "the query-point exclusion of choose_eval_at (rejection loop around Prng::get around a 32-bit pow: CBMC > 9 GB)",
    "dimensions above 2; Prio2VerifierState / Share codecs beyond the verifier share",
]
ASSUMPTIONS = ["GF(17) hook instantiation stands in for FieldPrio2 in the server-formula harnesses"]
