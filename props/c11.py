OUTSIDE = [
    "chunking-independence of the hash-based seed streams and 'derived seed = first bytes of the stream' (TurboSHAKE / AES / HMAC on symbolic input): not encodable",
    "more than two consecutive rejections before an accepted chunk (stated bound on the stream)",
    "fields other than GF(17)/GF(61441) for Prng::get; the shipped fields are covered through the accept set of try_from_random (c09_accept_*)",
]
ASSUMPTIONS = ["the stream stub returns arbitrary bytes constrained only by the stated rejection bound"]
