"""C09, engines M and G: full-width correctness of the Montgomery kernels from rustc's MIR of fp::ops, and
consistency of the field constants. Run by ./check C09 after the Kani harnesses (engine K)."""
import json
import os
import re
import time

from mirsmt import mir, smt, sx
from vlib.common import EVID, VERIF, log

OUTSIDE = [
    "pow / inv at full width (exponent-dependent loops; decided exhaustively at 8-bit words only: c09_fp8*_pow_inv)",
    "Field255 multiplication / inversion / subtraction (fiat-crypto generated code, trusted); only its canonical decoding is decided",
    "primality of the moduli; multiplicative order of G beyond the squaring chain that links it to ROOTS[20]",
    "Eq/Hash consistency is decided through Eq = ct_eq = representative equality plus reducedness of every operation's result",
]
ASSUMPTIONS = [
    "engine M trusts its intrinsic table for the num_traits / core::ops methods on primitive unsigned integers and rustc's MIR",
    "a stage lemma of the split-word chain quantifies over every stage pre-state satisfying the stated invariant (a superset of the reachable ones)",
]

QUICK_T, THOROUGH_T = 60, 600


def _obl(name, status, **kw):
    d = {"engine": kw.pop("engine", "M"), "name": name, "status": status}
    d.update(kw)
    return d


def _discharge(ex, goal, pre, name, results, timeout, funcs_encoded, bounds, extra_decls=(), key=None):
    r = smt.check(ex.script(extra_decls=extra_decls, assumptions=pre, goal=goal), timeout, cross_timeout=min(timeout, 30))
    st = {"unsat": "pass", "sat": "fail"}.get(r["verdict"], "inconclusive")
    results.append(_obl(name, st, solver_s=r["time"], z3=r["z3"], cvc5=r["cvc5"], functions=funcs_encoded, bounds=bounds,
                        reason=r.get("detail", ""), key=key or name, obligations=1))
    return r


def _side_obligations(ex, pre, prefix, results, timeout, funcs_encoded, bounds):
    for i, (desc, form) in enumerate(ex.obligs):
        _discharge(ex, form, pre, f"{prefix}:oblig{i}:{desc[:50]}", results, timeout, funcs_encoded, bounds)


def local_of(fn, dbg):
    v = fn.debug.get(dbg)
    if v is None or not re.match(r"^_\d+$", v):
        raise sx.NotEncodable(f"debug name {dbg} not found in {fn.name}")
    return v


def check_addsub(funcs, results, timeout):
    for W in (32, 64, 128):
        for fname, spec in (("add", "(mod (+ {x} {y}) p)"), ("sub", "(mod (- {x} {y}) p)")):
            ex = sx.Exec(funcs, {"W": W, "D": 2 * W, "H": W // 2, "const": {"PRIME": "p", "MU": 0, "R2": 0}})
            ex.decls.append(("p", "Int"))
            x, y = ex.sym_int("x", W), ex.sym_int("y", W)
            r = ex.run(funcs[f"FieldOps::{fname}"][0], [x, y])
            pre = [f"(and (< 0 p) (< p {1 << W}) (< {x.term} p) (< {y.term} p))"]
            goal = f"(and (< {r.term} p) (= {r.term} {spec.format(x=x.term, y=y.term)}))"
            _discharge(ex, goal, pre, f"M:FieldOps::{fname}@u{W}:any-modulus", results, timeout, [f"fp::ops::FieldOps::{fname}"],
                       f"every x, y < p and every modulus 0 < p < 2^{W}")
        for fname, spec in (("neg", "(mod (- p {x}) p)"), ("modp", "(ite (>= {x} p) (- {x} p) {x})")):
            ex = sx.Exec(funcs, {"W": W, "D": 2 * W, "H": W // 2, "const": {"PRIME": "p", "MU": 0, "R2": 0}})
            ex.decls.append(("p", "Int"))
            x = ex.sym_int("x", W)
            r = ex.run(funcs[f"FieldOps::{fname}"][0], [x])
            if fname == "neg":
                pre = [f"(and (< 0 p) (< p {1 << W}) (< {x.term} p))"]
            else:
                pre = [f"(and (< 0 p) (< p {1 << W}) (< {x.term} (* 2 p)))"]
            goal = f"(and (< {r.term} p) (= {r.term} {spec.format(x=x.term)}))"
            _discharge(ex, goal, pre, f"M:FieldOps::{fname}@u{W}:any-modulus", results, timeout, [f"fp::ops::FieldOps::{fname}"],
                       f"every operand and every modulus 0 < p < 2^{W}")


def check_single(funcs, name, ps, results, timeout):
    P, W = ps["PRIME"], ps["word_bits"]
    R = 1 << W
    mu = (-pow(P, -1, R)) % R  # recomputed from p, not read from the code
    ex = sx.Exec(funcs, {"W": W, "D": 2 * W, "H": None, "const": {"PRIME": P, "MU": ps["MU"], "R2": ps["R2"]}}, real_mul=False)
    x, y = ex.sym_int("x", W), ex.sym_int("y", W, P - 1)
    fn = funcs["FieldMulOpsSingleWord::mul"][0]
    r = ex.run(fn, [x, y])
    if len(ex.muls) != 1:
        raise sx.NotEncodable("expected exactly one symbolic product in the single-word REDC")
    m = ex.muls[0][2]
    mv = sx.I(m, 2 * W, (R - 1) * (P - 1))
    mlo = ex.lowbits("spec_mlo", mv, W, W)
    w = ex.wrap("spec_w", f"(* {mu} {mlo.term})", W, tub=mu * (R - 1)).term
    goal = (f"(and (< {r.term} {P}) (or (= (* {r.term} {R}) (+ {m} (* {P} {w}))) "
            f"(= (+ (* {r.term} {R}) (* {P} {R})) (+ {m} (* {P} {w})))))")
    fe = ["fp::ops::FieldMulOpsSingleWord::mul", "its hi_lo closure"]
    bounds = f"{name}: every x < 2^{W} (any word), every y < p; the product x*y is abstracted as any value <= (2^{W}-1)(p-1)"
    res = _discharge(ex, goal, [], f"M:{name}::mul:REDC-relation", results, timeout, fe, bounds,
                     key=f"M:{name}::mul:REDC-relation")
    _side_obligations(ex, [], f"M:{name}::mul", results, timeout, fe, bounds)
    return res, (ex, x, y, r, m)


def check_split(funcs, name, ps, results, timeout):
    """cut-point lemma chain for FieldMulOpsSplitWord::mul (see DESIGN.md section 4, C09)."""
    P, W = ps["PRIME"], ps["word_bits"]
    H = W // 2
    Bq = 1 << H
    R = 1 << W
    mus = (-pow(P, -1, Bq)) % Bq
    fn = funcs["FieldMulOpsSplitWord::mul"][0]
    fe = ["fp::ops::FieldMulOpsSplitWord::mul", "its high/low closures"]
    # anchors, found structurally
    # cut points: right before the statement that loads the split-word MU (start of a reduction round) and at the
    # block that performs the final subtraction
    mu_pos = [(i, si) for i in sorted(fn.blocks) for si, (d, rv) in enumerate(fn.blocks[i].stmts)
              if rv.strip().endswith("FieldMulOpsSplitWord<W>>::MU")]
    os_ = [i for i in sorted(fn.blocks) if fn.blocks[i].term and fn.blocks[i].term[0] == "call"
           and fn.blocks[i].term[2].endswith("OverflowingSub>::overflowing_sub")]
    # the final subtraction starts right after `prod` has been assembled (the block a call returns into with `prod` as
    # destination); fall back to the first overflowing_sub block
    prod_local = fn.debug.get("prod")
    after_prod = [fn.blocks[i].term[4] for i in sorted(fn.blocks) if fn.blocks[i].term and fn.blocks[i].term[0] == "call"
                  and fn.blocks[i].term[1] == prod_local]
    if len(mu_pos) != 2 or not (after_prod or os_):
        raise sx.NotEncodable(f"anchors of the split-word REDC not found (MU loads {mu_pos}, prod assignment {after_prod}, overflowing_sub blocks {os_})")
    A1, A2, A3 = mu_pos[0], mu_pos[1], ((after_prod[0], 0) if after_prod else (os_[0], 0))
    L = {n: local_of(fn, n) for n in ("z0", "z1", "z2", "z3", "x0", "x1", "y0", "y1", "p0", "p1", "w", "cc", "prod")}
    bind = {"W": W, "D": None, "H": H, "const": {"PRIME": P, "MU": ps["MU"], "SPLIT_MU": ps["MU"] % Bq, "R2": ps["R2"]}}
    Zmax = (R - 1) * (P - 1)
    V1max = (Zmax + P * (Bq - 1)) // Bq
    bnd = f"{name}: stage pre-states within the invariant; x < 2^{W}, y < p"

    # ---- S1 schoolbook ------------------------------------------------------------------
    ex = sx.Exec(funcs, bind, real_mul=False, tag="s1_")
    x, y = ex.sym_int("x", W), ex.sym_int("y", W, P - 1)
    env = ex.run(fn, [x, y], stop_at=A1)
    z = [env[L[f"z{i}"]] for i in range(4)]
    xs = {k: env[L[k]] for k in ("x0", "x1", "y0", "y1")}

    def prod_of(a, b):
        for (ta, tb_, m) in ex.muls:
            if ta == a.term and tb_ == b.term:
                return m
        raise sx.NotEncodable("partial product not found")
    m00, m01, m10, m11 = prod_of(xs["x0"], xs["y0"]), prod_of(xs["x0"], xs["y1"]), prod_of(xs["x1"], xs["y0"]), prod_of(xs["x1"], xs["y1"])
    zsum = f"(+ {sx.smt(z[0].term)} (* {Bq} {sx.smt(z[1].term)}) (* {Bq * Bq} {sx.smt(z[2].term)}) (* {Bq ** 3} {sx.smt(z[3].term)}))"
    goal = (f"(and (< {sx.smt(z[0].term)} {Bq}) (< {sx.smt(z[1].term)} {Bq}) (< {sx.smt(z[2].term)} {Bq}) (< {sx.smt(z[3].term)} {Bq}) "
            f"(= {x.term} (+ (* {Bq} {sx.smt(xs['x1'].term)}) {sx.smt(xs['x0'].term)})) (< {sx.smt(xs['x0'].term)} {Bq}) "
            f"(= {y.term} (+ (* {Bq} {sx.smt(xs['y1'].term)}) {sx.smt(xs['y0'].term)})) (< {sx.smt(xs['y0'].term)} {Bq}) "
            f"(= {zsum} (+ {m00} (* {Bq} (+ {m01} {m10})) (* {Bq * Bq} {m11}))))")
    _discharge(ex, goal, [], f"M:{name}::mul:L1-schoolbook", results, timeout, fe, bnd + "; partial products abstracted as free values within their exact range")
    _side_obligations(ex, [], f"M:{name}::mul:L1", results, timeout, fe, bnd)
    # distributivity (closed algebra): (x1 B + x0)(y1 B + y0) = x0y0 + B(x0y1 + x1y0) + B^2 x1y1
    alg = ("(set-logic ALL)\n(declare-const a Int)(declare-const b Int)(declare-const c Int)(declare-const d Int)\n"
           f"(assert (not (= (* (+ (* {Bq} a) b) (+ (* {Bq} c) d)) (+ (* b d) (* {Bq} (+ (* b c) (* a d))) (* {Bq * Bq} (* a c))))))\n(check-sat)\n")
    r = smt.check(alg, timeout)
    results.append(_obl(f"M:{name}::mul:L1-distributivity", {"unsat": "pass", "sat": "fail"}.get(r["verdict"], "inconclusive"), solver_s=r["time"],
                        z3=r["z3"], cvc5=r["cvc5"], functions=[], bounds="closed polynomial identity", obligations=1))

    # ---- S2 first reduction round -----------------------------------------------------
    ex = sx.Exec(funcs, bind, real_mul=True, tag="s2_")
    ex.inputs = {}
    env0 = {}
    zin = [ex.sym_int(f"z{i}", W, Bq - 1) for i in range(4)]
    for i in range(4):
        env0[L[f"z{i}"]] = zin[i]
    env = ex.run(fn, env=env0, start=A1, stop_at=A2)
    Z = f"(+ {zin[0].term} (* {Bq} {zin[1].term}) (* {Bq * Bq} {zin[2].term}) (* {Bq ** 3} {zin[3].term}))"
    pre = [f"(<= {Z} {Zmax})"]
    w1 = ex.wrap("spec_w1", f"(* {mus} {zin[0].term})", H, tub=mus * (Bq - 1)).term
    zo = [env[L[f"z{i}"]] for i in (1, 2, 3)]
    V1 = f"(+ {sx.smt(zo[0].term)} (* {Bq} {sx.smt(zo[1].term)}) (* {Bq * Bq} {sx.smt(zo[2].term)}))"
    goal = (f"(and (< {sx.smt(zo[0].term)} {Bq}) (< {sx.smt(zo[1].term)} {Bq}) (< {sx.smt(zo[2].term)} {Bq}) "
            f"(= (* {Bq} {V1}) (+ {Z} (* {P} {w1}))) "
            f"(= {sx.smt(env[L['p0']].term)} {P % Bq}) (= {sx.smt(env[L['p1']].term)} {P // Bq}))")
    _discharge(ex, goal, pre, f"M:{name}::mul:L2-round1", results, timeout, fe, bnd + f"; Z <= (2^{W}-1)(p-1)")
    _side_obligations(ex, pre, f"M:{name}::mul:L2", results, timeout, fe, bnd)
    havoc2 = sorted(k for k in ex.inputs if k not in (L["z0"], L["z1"], L["z2"], L["z3"]))

    # ---- S3 second reduction round ----------------------------------------------------
    ex = sx.Exec(funcs, bind, real_mul=True, tag="s3_")
    ex.inputs = {}
    env0 = {}
    z1, z2, z3 = (ex.sym_int(f"z{i}", W, Bq - 1) for i in (1, 2, 3))
    env0[L["z1"]], env0[L["z2"]], env0[L["z3"]] = z1, z2, z3
    env0[L["p0"]], env0[L["p1"]] = sx.I(P % Bq, W), sx.I(P // Bq, W)
    env = ex.run(fn, env=env0, start=A2, stop_at=A3)
    V1 = f"(+ {z1.term} (* {Bq} {z2.term}) (* {Bq * Bq} {z3.term}))"
    pre = [f"(<= {V1} {V1max})"]
    w2 = ex.wrap("spec_w2", f"(* {mus} {z1.term})", H, tub=mus * (Bq - 1)).term
    cc, prod = env[L["cc"]], env[L["prod"]]
    V2 = f"(+ (* {R} {sx.smt(cc.term)}) {sx.smt(prod.term)})"
    goal = (f"(and (<= 0 {sx.smt(cc.term)}) (<= {sx.smt(cc.term)} 1) (< {sx.smt(prod.term)} {R}) "
            f"(= (* {Bq} {V2}) (+ {V1} (* {P} {w2}))) (< {V2} {2 * P}))")
    _discharge(ex, goal, pre, f"M:{name}::mul:L3-round2", results, timeout, fe, bnd + f"; V1 <= {V1max}")
    _side_obligations(ex, pre, f"M:{name}::mul:L3", results, timeout, fe, bnd)
    havoc3 = sorted(k for k in ex.inputs)

    # ---- S4 final subtraction -----------------------------------------------------------
    ex = sx.Exec(funcs, bind, real_mul=True, tag="s4_")
    ex.inputs = {}
    cc, prod = ex.sym_int("cc", W, 1), ex.sym_int("prod", W)
    env0 = {L["cc"]: cc, L["prod"]: prod}
    r = ex.run(fn, env=env0, start=A3)
    V2 = f"(+ (* {R} {cc.term}) {prod.term})"
    pre = [f"(< {V2} {2 * P})"]
    goal = f"(and (< {sx.smt(r.term)} {P}) (= {sx.smt(r.term)} (ite (>= {V2} {P}) (- {V2} {P}) {V2})))"
    _discharge(ex, goal, pre, f"M:{name}::mul:L4-final-subtraction", results, timeout, fe, bnd + "; cc*2^W + prod < 2p")
    _side_obligations(ex, pre, f"M:{name}::mul:L4", results, timeout, fe, bnd)
    havoc4 = sorted(k for k in ex.inputs)

    # ---- S5 closing arithmetic: L1..L4 => r < p and r * 2^W = x*y (mod p) ----------------
    clos = ("(set-logic ALL)\n" + "".join(f"(declare-const {v} Int)" for v in ("Z", "V1", "V2", "w1", "w2", "r", "e")) + "\n"
            f"(assert (= (* {Bq} V1) (+ Z (* {P} w1))))(assert (= (* {Bq} V2) (+ V1 (* {P} w2))))\n"
            f"(assert (or (= e 0) (= e 1)))(assert (= r (- V2 (* e {P}))))\n"
            f"(assert (not (= (* r {R}) (+ Z (* {P} (- (+ w1 (* {Bq} w2)) (* e {R})))))))\n(check-sat)\n")
    r5 = smt.check(clos, timeout)
    results.append(_obl(f"M:{name}::mul:L5-closing", {"unsat": "pass", "sat": "fail"}.get(r5["verdict"], "inconclusive"), solver_s=r5["time"],
                        z3=r5["z3"], cvc5=r5["cvc5"], functions=[], obligations=1,
                        bounds="L1-L4 imply r*2^W = x*y + p*k for an integer k, i.e. r = x*y*R^-1 (mod p), r < p"))
    # stage bounds are consistent: L2's post implies L3's pre (pure arithmetic on constants)
    ok = ((Zmax + P * (Bq - 1)) // Bq) <= V1max
    results.append(_obl(f"M:{name}::mul:stage-bounds", "pass" if ok else "fail", engine="G", solver_s=0, functions=[],
                        bounds=f"V1 = (Z + p*w1)/B <= {V1max} whenever Z <= {Zmax}", obligations=1))
    # live-in locals that were havocked (each is listed: they are assumptions of the lemmas only if constrained above)
    results[-1]["havocked_live_ins"] = {"round1": havoc2, "round2": havoc3, "final": havoc4}


def check_domain_conversions(sets, results):
    """montgomery(x) = modp(mul(x, R2)), residue(x) = modp(mul(x, 1)): corollaries of the mul contract
    (x any word, second operand < p) and of R2 = R^2 mod p, decided as closed arithmetic."""
    for name, ps in sets.items():
        P, W = ps["PRIME"], ps["word_bits"]
        R = 1 << W
        ok = ps["R2"] == (R * R) % P and ps["R2"] < P and 1 < P
        results.append(_obl(f"G:{name}:montgomery/residue-preconditions", "pass" if ok else "fail", engine="G", solver_s=0, functions=[],
                            bounds="R2 = R^2 mod p and R2 < p, 1 < p: the mul contract applies to mul(x, R2) and mul(x, 1) for every word x; "
                                   "hence montgomery(x) = x*R mod p, residue(y) = y*R^-1 mod p and residue(montgomery(x)) = x mod p", obligations=1))


def check_constants(funcs, consts, sets, macro, results):
    roots = mir.roots_of(funcs, None)
    src = open(os.path.join(mir.REPO, "src", "fp.rs")).read().split("\n")
    line_of = {}
    for ln, vals in roots.items():
        m = re.search(r"impl FieldParameters<u\d+> for (\w+)", src[ln - 1])
        if m:
            line_of[m.group(1)] = vals
    for name, ps in sets.items():
        P, W = ps["PRIME"], ps["word_bits"]
        R = 1 << W
        kind, _, other = macro.get(name, ("single", W, 2 * W))
        base = W if kind == "single" else other
        Rinv = pow(R, -1, P)
        rt = line_of.get(name)
        checks = []
        checks.append(("p*MU = -1 mod 2^LOG2_BASE", (P * ps["MU"]) % (1 << base) == (1 << base) - 1))
        if kind == "split":
            checks.append(("split-word MU fits the half word", ps["MU"] < (1 << other)))
        checks.append(("R2 = R^2 mod p", ps["R2"] == (R * R) % P))
        checks.append(("2*HALF = R (mod p)", (2 * ps["HALF"]) % P == R % P and ps["HALF"] < P))
        checks.append(("BIT_MASK = 2^bitlen(p) - 1", ps["BIT_MASK"] == (1 << P.bit_length()) - 1))
        checks.append(("G < p", ps["G"] < P))
        if rt:
            n = min(ps["NUM_ROOTS"], 20)
            checks.append(("ROOTS[0] = R mod p (Montgomery one)", rt[0] == R % P))
            if n >= 1:
                checks.append(("ROOTS[1] = -R mod p", rt[1] == (P - R % P) % P))
            okc = all(rt[l] < P and (rt[l] * rt[l] * Rinv) % P == rt[l - 1] for l in range(1, n + 1))
            checks.append((f"ROOTS[l]^2 = ROOTS[l-1] for l = 1..{n} (so ROOTS[l] has order exactly 2^l)", okc))
            # G squared NUM_ROOTS - n times (Montgomery domain) = ROOTS[n]; G^(2^NUM_ROOTS) = 1 != G^(2^(NUM_ROOTS-1))
            g = ps["G"]
            for _ in range(ps["NUM_ROOTS"] - n):
                g = (g * g * Rinv) % P
            checks.append((f"G^(2^(NUM_ROOTS-{n})) = ROOTS[{n}]", g == rt[n]))
            gg = (ps["G"] * Rinv) % P
            checks.append(("G has order exactly 2^NUM_ROOTS", pow(gg, 1 << ps["NUM_ROOTS"], P) == 1 and pow(gg, 1 << (ps["NUM_ROOTS"] - 1), P) != 1))
        for desc, ok in checks:
            results.append(_obl(f"G:{name}:{desc}", "pass" if ok else "fail", engine="G", solver_s=0, functions=["fp::FieldParameters impl " + name],
                                bounds="closed check over the constants read from the MIR dump", obligations=1,
                                key=f"G:{name}:{desc}"))


def lift_and_replay(funcs, name, ps, kind, results, timeout):
    """A failed lemma only yields a stage pre-state. Lift to a real input: whole function with y fixed to each value of a
    ladder and x symbolic (every partial product is then linear); a model is replayed natively."""
    P, W = ps["PRIME"], ps["word_bits"]
    R = 1 << W
    H = W // 2
    ladder = [1, 2, 3, (1 << H) - 1, 1 << H, (1 << H) + 1, P - 1, P - 2, (P - 1) // 2, ps["R2"], (1 << (W - 1)) % P]
    fnname = "FieldMulOpsSplitWord::mul" if kind == "split" else "FieldMulOpsSingleWord::mul"
    for yv in ladder:
        yv %= P
        bind = {"W": W, "D": 2 * W if kind == "single" else None, "H": H,
                "const": {"PRIME": P, "MU": ps["MU"], "SPLIT_MU": ps["MU"] % (1 << H), "R2": ps["R2"]}}
        ex = sx.Exec(funcs, bind, real_mul=True, tag="lift_")
        x = ex.sym_int("x", W, P - 1)
        try:
            r = ex.run(funcs[fnname][0], [x, sx.I(yv, W)])
        except sx.NotEncodable:
            return None
        k = ex.fresh("k")
        goal = f"(and (< {sx.smt(r.term)} {P}) (exists ((kk Int)) (= (* {sx.smt(r.term)} {R}) (+ (* {x.term} {yv}) (* {P} kk)))))"
        # r*R = x*y (mod p)  <=>  (r*R - x*y) mod p = 0
        goal = f"(and (< {sx.smt(r.term)} {P}) (= (mod (- (* {sx.smt(r.term)} {R}) (* {x.term} {yv})) {P}) 0))"
        res = smt.check(ex.script(goal=goal), timeout, want_model_of=(x.term,))
        if res["verdict"] == "sat" and x.term in res["model"]:
            return {"x": res["model"][x.term], "y": yv, "field": name}
    return None


def native_replay_mul(name, cex):
    """Replay a lifted counterexample against the natively compiled crate (cargo kani playback = ordinary rustc build)."""
    from vlib import kani
    x, y = cex["x"], cex["y"]
    ty = {"FP32": "u32", "FP64": "u64", "FP128": "u128", "FP16": "u16", "FP16S": "u16", "FP16T": "u16", "FP8": "u8", "FP8B": "u8"}[name]
    path = f"crate::fp::{name}" if name in ("FP32", "FP64", "FP128") else f"crate::fp::verif_params::{name}"
    bits = int(ty[1:])
    src = f'''
#[test]
fn kani_concrete_playback_m_c09_mul() {{
    use crate::fp::{{FieldOps, FieldParameters}};
    use num_bigint::BigUint;
    let (x, y): ({ty}, {ty}) = ({x}, {y});
    let r = <{path} as FieldOps<{ty}>>::mul(x, y);
    let p = <{path} as FieldParameters<{ty}>>::PRIME;
    let big = |v: {ty}| BigUint::from(v);
    assert!(r < p, "product not reduced");
    assert_eq!((big(r) << {bits}usize) % big(p), (big(x) * big(y)) % big(p), "r*R != x*y (mod p)");
}}
'''
    t = {"test": "kani_concrete_playback_m_c09_mul", "source": src, "mount": "root"}
    res, out = kani.native_replay([t])
    return res.get(t["test"]), src


def translator_validation(funcs, sets, macro, results, seed):
    """Push concrete inputs through both the encoding (the symbolic executor folding constants) and the natively compiled
    functions. A mismatch means the translator is wrong: inconclusive, never a violation."""
    import random
    from vlib import kani
    rnd = random.Random(1000 + seed)
    cases = []
    for name in ("FP32", "FP64", "FP128"):
        ps = sets[name]
        P, W = ps["PRIME"], ps["word_bits"]
        H = W // 2
        lattice = [0, 1, 2, P - 1, P - 2, (1 << H) - 1, 1 << H, (1 << H) + 1, (P - 1) // 2, ps["R2"], (1 << (W - 1)) % P,
                   (1 << W) % P, ((1 << W) - 1) % P, 0xFFFF_FFFF % P, (P >> 1) + 1]
        vals = [(a, b) for a in lattice[:9] for b in lattice[:6]] + [(rnd.randrange(P), rnd.randrange(P)) for _ in range(12)]
        for (a, b) in vals:
            cases.append((name, a % P, b % P))
    enc = {}
    for (name, a, b) in cases:
        ps = sets[name]
        P, W = ps["PRIME"], ps["word_bits"]
        kind = macro[name][0]
        bind = {"W": W, "D": 2 * W if kind == "single" else None, "H": W // 2,
                "const": {"PRIME": P, "MU": ps["MU"], "SPLIT_MU": ps["MU"] % (1 << (W // 2)), "R2": ps["R2"]}}
        out = []
        for fname, args in (("FieldOps::add", [a, b]), ("FieldOps::sub", [a, b]),
                            ("FieldMulOpsSingleWord::mul" if kind == "single" else "FieldMulOpsSplitWord::mul", [a, b])):
            ex = sx.Exec(funcs, bind, real_mul=True)
            r = ex.run(funcs[fname][0], [sx.I(v, W) for v in args])
            if not isinstance(r.term, int):
                raise sx.NotEncodable("concrete evaluation of the encoding did not fold to a constant")
            out.append(r.term)
        enc[(name, a, b)] = out
    body = []
    for name in ("FP32", "FP64", "FP128"):
        ty = {"FP32": "u32", "FP64": "u64", "FP128": "u128"}[name]
        arr = ", ".join(f"({a}, {b})" for (n, a, b) in cases if n == name)
        body.append(f"    for (x, y) in [{arr}] as [({ty}, {ty}); {sum(1 for c in cases if c[0] == name)}] {{\n"
                    f"        println!(\"MVAL {name} {{}} {{}} {{}} {{}} {{}}\", x, y, <crate::fp::{name} as FieldOps<{ty}>>::add(x, y), "
                    f"<crate::fp::{name} as FieldOps<{ty}>>::sub(x, y), <crate::fp::{name} as FieldOps<{ty}>>::mul(x, y));\n    }}\n")
    src = "#[test]\nfn kani_concrete_playback_m_validate() {\n    use crate::fp::FieldOps;\n" + "".join(body) + "}\n"
    out = kani.native_eval(src, "kani_concrete_playback_m_validate")
    got = {}
    for m in re.finditer(r"MVAL (\w+) (\d+) (\d+) (\d+) (\d+) (\d+)", out):
        got[(m.group(1), int(m.group(2)), int(m.group(3)))] = [int(m.group(4)), int(m.group(5)), int(m.group(6))]
    missing = [k for k in enc if k not in got]
    bad = [k for k in enc if k in got and got[k] != enc[k]]
    if missing:
        results.append(_obl("M:translator-validation", "inconclusive", reason=f"native evaluation produced no value for {len(missing)} cases: {out[-300:]}"))
    elif bad:
        results.append(_obl("M:translator-validation", "inconclusive",
                            reason=f"encoding disagrees with the native function on {bad[:3]} (translator bug, not a finding)"))
    else:
        results.append(_obl("M:translator-validation", "pass", solver_s=0, functions=["FieldOps::add", "FieldOps::sub", "mul (single/split)"],
                            bounds=f"{len(enc)} concrete operand pairs (boundary lattice + seeded random) per the three shipped parameter sets: "
                                   "encoding evaluated concretely = natively compiled function", obligations=len(enc),
                            traces_validated_against_impl=len(enc)))


def run(tier):
    results = []
    timeout = QUICK_T if tier == "quick" else THOROUGH_T
    t0 = time.time()
    try:
        path, dt = mir.dump_mir() if os.environ.get("VERIF_M_REUSE_MIR") != "1" else (os.path.join(mir.MIR_DIR, "prio.mir"), 0.0)
        funcs, consts = mir.parse(path)
        sets, macro = mir.field_param_sets(consts)
    except Exception as e:  # noqa
        return [_obl("M:mir-dump", "inconclusive", reason=str(e)[:500])]
    results.append(_obl("M:mir-dump", "pass", solver_s=0, functions=["cargo +nightly rustc -- -Zunpretty=mir (regenerated from /repo)"],
                        bounds=f"{sum(len(v) for v in funcs.values())} function bodies parsed in {dt:.0f}s", obligations=0))
    shipped = ["FP32", "FP64", "FP128"]
    hook = ["FP8", "FP8B", "FP16", "FP16S", "FP16T"]
    names = shipped + (hook if tier == "thorough" else ["FP16S", "FP16T"])
    try:
        check_addsub(funcs, results, timeout)
    except sx.NotEncodable as e:
        results.append(_obl("M:FieldOps::add/sub", "inconclusive", reason=f"not encodable: {e}"))
    failed_fields = []
    for name in names:
        if name not in sets or name not in macro:
            results.append(_obl(f"M:{name}", "inconclusive", reason="parameter set not found in the MIR dump"))
            continue
        kind = macro[name][0]
        before = len(results)
        try:
            if kind == "single":
                check_single(funcs, name, sets[name], results, timeout)
            else:
                check_split(funcs, name, sets[name], results, timeout)
        except sx.NotEncodable as e:
            results.append(_obl(f"M:{name}::mul", "inconclusive", reason=f"not encodable: {e}"))
        if any(r["status"] == "fail" for r in results[before:]):
            failed_fields.append((name, kind, before))
    # a failed lemma is only a stage pre-state: lift to a real input and replay natively before calling it a violation
    for name, kind, before in failed_fields:
        cex = lift_and_replay(funcs, name, sets[name], kind, results, timeout)
        confirmed = False
        if cex is not None:
            verdict, src = native_replay_mul(name, cex)
            rp = os.path.join(EVID, "replay", f"C09-M-{name}-mul.json")
            json.dump({"engine": "M", "property": "C09", "field": name, "x": cex["x"], "y": cex["y"], "native": verdict,
                       "tests": [{"test": "kani_concrete_playback_m_c09_mul", "source": src, "mount": "root"}]}, open(rp, "w"), indent=1)
            confirmed = verdict == "FAILED"
        for r in results[before:]:
            if r["status"] == "fail" and r["engine"] == "M":
                if confirmed:
                    r["replay"] = rp
                    r["counterexample"] = cex
                else:
                    r["status"] = "inconclusive"
                    r["reason"] = ("lemma failed but no real input reproducing a wrong product was found "
                                   "(stage pre-state may be unreachable or lifting ladder too small)")
    try:
        from vlib.common import seed as _seed
        translator_validation(funcs, sets, macro, results, _seed())
    except sx.NotEncodable as e:
        results.append(_obl("M:translator-validation", "inconclusive", reason=str(e)))
    check_domain_conversions({n: sets[n] for n in names if n in sets}, results)
    check_constants(funcs, consts, {n: sets[n] for n in shipped + hook if n in sets}, macro, results)
    log(f"[C09] engines M/G: {sum(1 for r in results if r['status'] == 'pass')}/{len(results)} obligations discharged in {time.time() - t0:.0f}s")
    return results


def replay(data):
    from vlib import kani
    res, out = kani.native_replay(data["tests"])
    print(json.dumps(res, indent=1))
    if any(v == "FAILED" for v in res.values()):
        print(f"VIOLATION property=C09 replay={os.path.join(EVID, 'replay', 'C09-M-' + data['field'] + '-mul.json')}")
        return 1
    return 0
