OUTSIDE = [
    "the Prio3 pipeline itself (shard -> verify_init -> verifier_shares_to_message -> verify_next -> aggregate -> unshard): every step hashes through TurboSHAKE; with a stub XOF and GF(17) the 3-aggregator flow did not finish in 900 s",
    "SumVec encode->truncate->decode round trip (CBMC > 9 GB even for len 1); parameters beyond GF(17), max <= 16, vector lengths <= 3",
    "aggregator counts, number of proofs, ctx/nonce/verify-key/randomness quantifiers of the property",
]
ASSUMPTIONS = ["GF(17) hook instantiation of the unchanged generic FLP types stands in for the shipped 64/128-bit fields"]
