"""C16, engine M: narrow-width (u8/u16/u32) checked arithmetic in the protocol modules is overflow-free for every
operand value (functions Kani cannot enter: Poplar1::verify_init, Prio3::shard_with_random, ...)."""
import json
import os
import re
import time

from mirsmt import mir, narrow, smt
from vlib.common import EVID, log

OUTSIDE = [
    "word-sized (usize/u64/u128) arithmetic in functions Kani cannot enter (needs size invariants); DP budget / distribution constructors (BigUint rationals)",
    "Prio3::verify_init beyond the Count instance with a stub XOF; Poplar1 operations other than the integer arithmetic of verify_init and the aggregation-parameter codec",
    "verifier_shares_to_message with >= 256 shares is decided by engine M + native replay only (CBMC does not finish 258 unrolled iterations)",
]
ASSUMPTIONS = []

# sites whose operand range is bounded by an invariant that the interval slice cannot see; each is an assumption of the check
INVARIANTS = {
    ("shard_with_random", "AddWithOverflow", "u8"):
        ("the u8 aggregator index is < num_aggregators <= 254 (check_num_aggregators in every Prio3 constructor)", (0, 253)),
}

DRIVERS = {
    "verify_init": ("poplar1", '''
#[test]
fn kani_concrete_playback_m_narrow_site() {{
    use super::*;
    use crate::vdaf::{{Aggregator, Client}};
    use crate::idpf::IdpfInput;
    let level: u16 = {b};
    let bits = level as usize + 2;
    let vdaf = Poplar1::new_turboshake128(bits);
    let input = IdpfInput::from_bools(&vec![false; bits]);
    let (public, shares) = vdaf.shard(b"ctx", &input, &[0; 16]).unwrap();
    let agg_param = Poplar1AggregationParam::try_from_prefixes(vec![input.prefix(level as usize)]).unwrap();
    let r = vdaf.verify_init(&[0; 32], b"ctx", 0, &agg_param, &[0; 16], &public, &shares[0]);
    assert!(r.is_ok(), "an honest report must pass verify_init at every level");
}}
'''),
    "verifier_shares_to_message": ("prio3", '''
#[test]
fn kani_concrete_playback_m_narrow_site() {{
    use super::*;
    use crate::vdaf::Aggregator;
    use crate::field::{{Field64, FieldElement}};
    let n: usize = {a} + 1;
    let vdaf = Prio3::new_count(2).unwrap();
    let share = Prio3VerifierShare::<Field64, 32> {{ verifiers: vec![Field64::zero(); 4], joint_rand_part: None }};
    let r = vdaf.verifier_shares_to_message(b"", &(), (0..n).map(|_| share.clone()));
    assert!(r.is_err(), "a wrong number of verifier shares must be refused");
}}
'''),
}


def _obl(name, status, **kw):
    d = {"engine": "M", "name": name, "status": status}
    d.update(kw)
    return d


def run(tier):
    from vlib import kani
    results = []
    t0 = time.time()
    try:
        path, dt = mir.dump_mir()
        funcs, consts = mir.parse(path)
    except Exception as e:  # noqa
        return [_obl("M:mir-dump", "inconclusive", reason=str(e)[:500])]
    recs = narrow.scan(funcs)
    results.append(_obl("M:narrow-scan", "pass", solver_s=0, obligations=0, functions=["every function of src/vdaf, src/idpf.rs, src/codec.rs, src/flp, src/topology in the MIR dump"],
                        bounds=f"{len(recs)} checked u8/u16/u32 operations found in scope ({dt:.0f}s MIR dump)"))
    for r in recs:
        short = re.sub(r"<impl at [^>]*>::", "", r["function"])
        fname = short.split("::")[-1]
        site = f"M:narrow:{short}:{r['op']}:{r['type']}"
        inv = INVARIANTS.get((fname, r["op"] + "WithOverflow", r["type"]))
        if inv is not None:
            # the invariant bounds the symbolic operand
            if r["a"][0] != r["a"][1]:
                r["a"] = inv[1]
            else:
                r["b"] = inv[1]
            ASSUMPTIONS.append(f"{site}: {inv[0]}")
        q = smt.check(narrow.obligation_smt(r), 30, want_model_of=("a", "b"))
        if q["verdict"] == "unsat":
            results.append(_obl(site, "pass", solver_s=q["time"], z3=q["z3"], cvc5=q["cvc5"], obligations=1,
                                functions=[r["function"]], bounds=f"{r['stmt']} with operand ranges {r['a']} x {r['b']}" + (f"; assumes: {inv[0]}" if inv else "")))
            continue
        if q["verdict"] != "sat":
            results.append(_obl(site, "inconclusive", reason=q.get("detail", "")))
            continue
        model = q["model"]
        drv = DRIVERS.get(fname)
        if drv is None:
            results.append(_obl(site, "inconclusive", key=site, functions=[r["function"]],
                                reason=f"unproved narrow-width arithmetic {r['stmt']} (overflowing operands {model}); no native driver for this site - cannot confirm"))
            continue
        mount, tmpl = drv
        src = tmpl.format(a=model.get("a", 0), b=model.get("b", 0))
        t = {"test": "kani_concrete_playback_m_narrow_site", "source": src, "mount": mount}
        res, out = kani.native_replay([t])
        rp = os.path.join(EVID, "replay", f"C16-M-narrow-{fname}.json")
        json.dump({"engine": "M", "property": "C16", "site": site, "stmt": r["stmt"], "model": model, "tests": [t], "native": res}, open(rp, "w"), indent=1)
        if res.get(t["test"]) == "FAILED":
            results.append(_obl(site, "fail", key=site, replay=rp, functions=[r["function"]], counterexample=model,
                                bounds=f"{r['stmt']} overflows for operands {model}; reproduced natively"))
        else:
            results.append(_obl(site, "inconclusive", key=site, functions=[r["function"]],
                                reason=f"unproved narrow-width arithmetic {r['stmt']}; the native driver did not reproduce a failure ({res})"))
    log(f"[C16] engine M (narrow arithmetic): {sum(1 for r in results if r['status'] == 'pass')}/{len(results)} in {time.time() - t0:.0f}s")
    return results


def replay(data):
    from vlib import kani
    res, out = kani.native_replay(data["tests"])
    print(json.dumps(res, indent=1))
    if any(v == "FAILED" for v in res.values()):
        print("VIOLATION property=C16 replay=" + os.path.join(EVID, "replay", "C16-M-narrow-" + data["site"].split(":")[-3].split("::")[-1] + ".json"))
        return 1
    return 0
