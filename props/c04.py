OUTSIDE = [
    "the probabilistic claim (a report programmed with a value other than one / several non-zero candidates / inconsistent correlated randomness is rejected w.h.p.)",
    "IDPF evaluation, correction-word decoding, correlated-randomness derivation (bitvec + XOF)",
    "leaf-level verify_next (Field255 states) and leaf sums beyond a = 0..255, d in {0,1,2}",
]
ASSUMPTIONS = []
