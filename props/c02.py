OUTSIDE = [
    "soundness: that an invalid or tampered report fails one of the decided conditions except with negligible probability (FLP soundness error, hash binding) - a probability over XOF outputs",
    "end-to-end tampering of encoded messages through shard/verify_init with a real XOF",
    "instances beyond Prio3<Count<GF17>> (1-2 proofs) and Prio3<SumVec<GF17>(1,2,2)>, SEED_SIZE 4 with a constant-stream XOF stub",
]
ASSUMPTIONS = ["the XOF stub returns a constant stream: the decided conditions do not depend on hash outputs"]
