#!/bin/bash
# Offline setup after a fresh restore: pre-build the Kani dependency artefacts once (slot0) and clone
# them for the parallel slots. Everything the checks need afterwards is rebuilt from /repo on each run.
HERE="$(cd "$(dirname "${BASH_SOURCE[0]}")" && pwd)"
export CARGO_NET_OFFLINE=true
cd "$HERE" && python3 -c "
from vlib import kani
kani.ensure_dirs()
kani.ensure_slots(kani.NSLOTS)
print('slots ready')
"
