// C04 (state machine only): an aggregator finishes only from (round two, Done) with its stored output share,
// continues only from (round one, sketch of the same field) with the specified round-two share, and refuses every
// other pairing; the combined round-two sketch must be zero. Mounted inside vdaf::poplar1.
// The probabilistic statement about malicious clients (IDPF outputs, sketch soundness) is outside.
use super::super::*;
use crate::field::{Field255, Field64, FieldElement};
use crate::vdaf::xof::XofTurboShake128;
use crate::vdaf::{Aggregator, VerifyTransition};

fn fmt_stub(_: core::fmt::Arguments<'_>) -> String {
    String::new()
}

fn any_f64() -> Field64 {
    let raw: u64 = kani::any();
    match Field64::verif_from_raw(raw) {
        Some(e) => e,
        None => {
            kani::assume(false);
            <Field64 as FieldElement>::zero()
        }
    }
}

fn z255() -> Field255 {
    <Field255 as FieldElement>::zero()
}

//@ harness: c04_verify_next_inner
//@ prop: C04
//@ tier: quick
//@ cost: 120
//@ funcs: Poplar1::verify_next, finish_sketch (inner level, Field64)
//@ bounds: every inner-level state shape (round one with either role, or round two; arbitrary stored output-share element; A/B shares concrete) against every kind of verifier message (inner sketch (concrete elements), leaf sketch, Done)
//@ asserts: Finish only from (round two, Done), releasing exactly the stored output share; Continue only from (round one, inner sketch) with state round two, same output share and share = A*s0 + B (+ s0^2 - s1 - s2 for the helper); every other pairing is an error
//@ stubs: alloc::fmt::format
#[kani::proof]
#[kani::unwind(5)]
#[kani::stub(alloc::fmt::format, fmt_stub)]
pub fn c04_verify_next_inner() {
    let vdaf = Poplar1::<XofTurboShake128, 32>::new_turboshake128(4);
    // A/B shares and the sketch are concrete here (the round-two share formula is decided for all values over GF(17) in
    // c04_finish_sketch); round, role, message kind and the stored output share are symbolic
    let (a, b, o) = (Field64::from(3u64), Field64::from(5u64), any_f64());
    let is_leader: bool = kani::any();
    let round_two: bool = kani::any();
    let sketch = if round_two { SketchState::RoundTwo } else { SketchState::RoundOne { A_share: a, B_share: b, is_leader } };
    let state = Poplar1VerifierState(VerifierStateVariant::Inner(VerifierState { sketch, output_share: vec![o] }));
    let s = [Field64::from(7u64), Field64::from(11u64), Field64::from(13u64)];
    let kind: u8 = kani::any();
    kani::assume(kind <= 2);
    let msg = Poplar1VerifierMessage(match kind {
        0 => VerifierMessageVariant::SketchInner(s),
        1 => VerifierMessageVariant::SketchLeaf([z255(), z255(), z255()]),
        _ => VerifierMessageVariant::Done,
    });
    let r = vdaf.verify_next(b"", state, msg);
    match &r {
        Ok(VerifyTransition::Finish(out)) => {
            assert!(round_two && kind == 2);
            match out {
                Poplar1FieldVec::Inner(v) => assert!(v.len() == 1 && v[0] == o),
                _ => panic!("inner state must release an inner share"),
            }
        }
        Ok(VerifyTransition::Continue(st, share)) => {
            assert!(!round_two && kind == 0);
            match &st.0 {
                VerifierStateVariant::Inner(VerifierState { sketch: SketchState::RoundTwo, output_share }) => {
                    assert!(output_share.len() == 1 && output_share[0] == o);
                }
                _ => panic!("must advance to round two at the same level"),
            }
            let mut want = a * s[0] + b;
            if !is_leader {
                want += s[0] * s[0] - s[1] - s[2];
            }
            match share {
                Poplar1FieldVec::Inner(v) => assert!(v.len() == 1 && v[0] == want),
                _ => panic!("inner share expected"),
            }
        }
        Err(_) => assert!(!((round_two && kind == 2) || (!round_two && kind == 0))),
    }
    kani::cover!(matches!(r, Ok(VerifyTransition::Finish(_))));
    kani::cover!(matches!(r, Ok(VerifyTransition::Continue(..))));
    kani::cover!(r.is_err() && !round_two && kind == 2);
    core::mem::forget(r);
}

//@ harness: c04_shares_to_message_inner
//@ prop: C04
//@ tier: quick
//@ cost: 120
//@ funcs: Poplar1::verifier_shares_to_message, next_message (inner level)
//@ bounds: two inner shares of length 1 (round two) or 3 (round one) with arbitrary elements; also lengths 2, mismatched lengths, an inner/leaf pair, one and three shares
//@ asserts: round two: Done iff the two shares sum to zero, error otherwise; round one: the element-wise sum as sketch; everything else refused
//@ stubs: alloc::fmt::format
#[kani::proof]
#[kani::unwind(6)]
#[kani::stub(alloc::fmt::format, fmt_stub)]
pub fn c04_shares_to_message_inner() {
    let vdaf = Poplar1::<XofTurboShake128, 32>::new_turboshake128(4);
    let agg = Poplar1AggregationParam { level: 0, prefixes: Vec::new() };
    let x = [any_f64(), any_f64(), any_f64()];
    let y = [any_f64(), any_f64(), any_f64()];
    let shape: u8 = kani::any();
    kani::assume(shape <= 6);
    let inner = |v: &[Field64]| Poplar1FieldVec::Inner(v.to_vec());
    let leaf1 = || Poplar1FieldVec::Leaf(vec![z255()]);
    let r = match shape {
        0 => vdaf.verifier_shares_to_message(b"", &agg, [inner(&x[..1]), inner(&y[..1])]),
        1 => vdaf.verifier_shares_to_message(b"", &agg, [inner(&x[..]), inner(&y[..])]),
        2 => vdaf.verifier_shares_to_message(b"", &agg, [inner(&x[..2]), inner(&y[..2])]),
        3 => vdaf.verifier_shares_to_message(b"", &agg, [inner(&x[..1]), inner(&y[..])]),
        4 => vdaf.verifier_shares_to_message(b"", &agg, [inner(&x[..1]), leaf1()]),
        5 => vdaf.verifier_shares_to_message(b"", &agg, [inner(&x[..1])]),
        _ => vdaf.verifier_shares_to_message(b"", &agg, [inner(&x[..1]), inner(&y[..1]), inner(&x[..1])]),
    };
    match shape {
        0 => {
            let zero = x[0] + y[0] == <Field64 as FieldElement>::zero();
            match &r {
                Ok(m) => assert!(zero && matches!(m.0, VerifierMessageVariant::Done)),
                Err(_) => assert!(!zero),
            }
        }
        1 => match &r {
            Ok(Poplar1VerifierMessage(VerifierMessageVariant::SketchInner(s))) => {
                assert!(s[0] == x[0] + y[0] && s[1] == x[1] + y[1] && s[2] == x[2] + y[2]);
            }
            _ => panic!("round-one shares must combine into an inner sketch"),
        },
        _ => assert!(r.is_err()),
    }
    kani::cover!(shape == 0 && r.is_ok());
    kani::cover!(shape == 0 && r.is_err());
    kani::cover!(shape == 4);
    core::mem::forget((r, agg));
}

//@ harness: c04_shares_to_message_leaf
//@ prop: C04
//@ tier: quick
//@ cost: 200
//@ timeout: 1200
//@ funcs: Poplar1::verifier_shares_to_message, next_message (leaf level, Field255)
//@ bounds: two leaf shares of length 1: a = any integer 0..=255 as a field element, b = -a + d with d in {0, 1, 2}
//@ asserts: Done iff d = 0 (the shares sum to zero); otherwise an error - a failed zero check is never turned into acceptance
//@ stubs: alloc::fmt::format
#[kani::proof]
#[kani::unwind(34)]
#[kani::stub(alloc::fmt::format, fmt_stub)]
pub fn c04_shares_to_message_leaf() {
    let vdaf = Poplar1::<XofTurboShake128, 32>::new_turboshake128(4);
    let agg = Poplar1AggregationParam { level: 3, prefixes: Vec::new() };
    let a = Field255::from(u64::from(kani::any::<u8>()));
    let d: u64 = kani::any();
    kani::assume(d <= 2);
    let b = -a + Field255::from(d);
    let r = vdaf.verifier_shares_to_message(b"", &agg, [Poplar1FieldVec::Leaf(vec![a]), Poplar1FieldVec::Leaf(vec![b])]);
    match &r {
        Ok(m) => assert!(d == 0 && matches!(m.0, VerifierMessageVariant::Done)),
        Err(_) => assert!(d != 0),
    }
    kani::cover!(r.is_ok());
    kani::cover!(r.is_err());
    core::mem::forget((r, agg));
}

//@ harness: c04_finish_sketch
//@ prop: C04
//@ tier: quick
//@ cost: 30
//@ funcs: poplar1::finish_sketch (generic code at F = GF(17))
//@ bounds: every sketch triple, every A/B share, both roles
//@ asserts: share = A*s0 + B for the leader, A*s0 + B + s0^2 - s1 - s2 for the helper; so the two shares sum to (A0+A1)*s0 + (B0+B1) + s0^2 - s1 - s2
//@ stubs: alloc::fmt::format
#[kani::proof]
#[kani::unwind(4)]
#[kani::stub(alloc::fmt::format, fmt_stub)]
pub fn c04_finish_sketch() {
    use crate::field::Field8;
    const P: u32 = 17;
    let f = || {
        let raw: u8 = kani::any();
        match Field8::verif_from_raw(raw) {
            Some(e) => e,
            None => {
                kani::assume(false);
                <Field8 as FieldElement>::zero()
            }
        }
    };
    let (a, b) = (f(), f());
    let s = [f(), f(), f()];
    let is_leader: bool = kani::any();
    let got = finish_sketch(s, a, b, is_leader);
    assert_eq!(got.len(), 1);
    let u = |x: Field8| x.verif_raw() as u32;
    let mut want = (u(a) * u(s[0]) + u(b)) % P;
    if !is_leader {
        want = (want + u(s[0]) * u(s[0]) + 2 * P - u(s[1]) - u(s[2])) % P;
    }
    assert_eq!(u(got[0]), want);
    kani::cover!(is_leader);
    kani::cover!(!is_leader);
    core::mem::forget(got);
}
