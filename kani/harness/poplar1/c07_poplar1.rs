// C07/C08 for the Poplar1 messages that can be reached without the bitvec-based prefix machinery
// (mounted inside vdaf::poplar1: private fields are visible, values are built directly).
use super::super::*;
use crate::codec::{Decode, Encode};
use crate::field::{Field255, Field64, FieldElement};
use crate::vdaf::xof::Seed;

fn fmt_stub(_: core::fmt::Arguments<'_>) -> String {
    String::new()
}

fn any_f64() -> Field64 {
    let raw: u64 = kani::any();
    match Field64::verif_from_raw(raw) {
        Some(e) => e,
        None => {
            kani::assume(false);
            <Field64 as FieldElement>::zero()
        }
    }
}

macro_rules! input_share_len {
    ($name:ident, $S:expr, $inner:expr, $total:expr) => {
        #[kani::proof]
        #[kani::unwind(36)]
        #[kani::stub(alloc::fmt::format, fmt_stub)]
        pub fn $name() {
            let mut corr_inner = Vec::with_capacity($inner);
            for _ in 0..$inner {
                corr_inner.push([any_f64(), any_f64()]);
            }
            let v = Poplar1InputShare::<$S> {
                idpf_key: Seed::from_bytes(kani::any()),
                corr_seed: Seed::from_bytes(kani::any()),
                corr_inner,
                corr_leaf: [<Field255 as FieldElement>::zero(), <Field255 as FieldElement>::one()],
            };
            let mut out = Vec::with_capacity($total);
            let e = v.encode(&mut out);
            assert!(e.is_ok());
            // wire format: 16-byte IDPF key, SEED_SIZE-byte seed, 2*8 bytes per inner level, 2*32 bytes for the leaf level
            assert_eq!(out.len(), 16 + $S + 16 * $inner + 64);
            assert_eq!(v.encoded_len(), Some(out.len()));
            kani::cover!(true);
            core::mem::forget((v, out, e));
        }
    };
}

//@ harness: c07_poplar1_input_share_len_s16
//@ prop: C07
//@ tier: quick
//@ cost: 60
//@ funcs: Poplar1InputShare::<16>::{encode, encoded_len}
//@ bounds: SEED_SIZE 16; one inner level with arbitrary correlated randomness, arbitrary seeds; leaf elements concrete
//@ asserts: bytes produced = 16 + SEED_SIZE + 16*levels + 64 = encoded_len()
//@ stubs: alloc::fmt::format
input_share_len!(c07_poplar1_input_share_len_s16, 16, 1, 112);

//@ harness: c07_poplar1_input_share_len_s32
//@ prop: C07
//@ tier: quick
//@ cost: 60
//@ funcs: Poplar1InputShare::<32>::{encode, encoded_len}
//@ bounds: SEED_SIZE 32 (the shipped Poplar1 instantiation); one inner level; arbitrary seeds
//@ asserts: bytes produced = 16 + SEED_SIZE + 16*levels + 64 = encoded_len()
//@ stubs: alloc::fmt::format
input_share_len!(c07_poplar1_input_share_len_s32, 32, 1, 128);

//@ harness: c08_poplar1_agg_param_level
//@ prop: C08,C07
//@ tier: quick
//@ cost: 60
//@ funcs: Poplar1AggregationParam::decode (header arithmetic), Poplar1AggregationParam::try_from_prefixes (empty list)
//@ bounds: every 6-byte string with a zero prefix count: the level field ranges over all of u16 (incl. 0xFFFF)
//@ asserts: returns an error (empty prefix list) - never panics or overflows in the level arithmetic
//@ stubs: alloc::fmt::format
#[kani::proof]
#[kani::unwind(10)]
#[kani::stub(alloc::fmt::format, fmt_stub)]
pub fn c08_poplar1_agg_param_level() {
    let l: [u8; 2] = kani::any();
    let b: [u8; 6] = [l[0], l[1], 0, 0, 0, 0];
    let r = Poplar1AggregationParam::get_decoded(&b[..]);
    assert!(r.is_err());
    kani::cover!(l[0] == 255 && l[1] == 255);
    kani::cover!(l[0] == 0 && l[1] == 0);
    core::mem::forget(r);
}

//@ harness: c07_poplar1_agg_param_len
//@ prop: C07,C08
//@ tier: quick
//@ cost: 30
//@ funcs: Poplar1AggregationParam::encoded_len
//@ bounds: every level value (u16) with an empty prefix list (value built directly)
//@ asserts: encoded_len() = Some(6) (2-byte level + 4-byte count), no overflow
//@ stubs: alloc::fmt::format
#[kani::proof]
#[kani::unwind(4)]
#[kani::stub(alloc::fmt::format, fmt_stub)]
pub fn c07_poplar1_agg_param_len() {
    let v = Poplar1AggregationParam { level: kani::any(), prefixes: Vec::new() };
    assert_eq!(v.encoded_len(), Some(6));
    kani::cover!(v.level == u16::MAX);
    core::mem::forget(v);
}

// ---------------------------------------------------------------------------------------------
// inner-level (Field64) verifier messages, sketch shares and verifier states: contracts D and E
// (harnesses with symbolic tag bytes or a symbolic element count in Poplar1VerifierState::decode exhaust CBMC's memory -
// the `repeat_with().take(n).collect::<Result<Vec<_>,_>>()` decoder - and are therefore not part of the claim)

fn p1() -> Poplar1<crate::vdaf::xof::XofTurboShake128, 32> {
    Poplar1::new_turboshake128(4)
}

fn le64(b: &[u8]) -> u64 {
    u64::from_le_bytes([b[0], b[1], b[2], b[3], b[4], b[5], b[6], b[7]])
}

const P64: u64 = 18446744069414584321;

fn inner_state(round_two: bool) -> Poplar1VerifierState {
    let z = <Field64 as FieldElement>::zero();
    let sketch = if round_two { SketchState::RoundTwo } else { SketchState::RoundOne { A_share: z, B_share: z, is_leader: true } };
    Poplar1VerifierState(VerifierStateVariant::Inner(VerifierState { sketch, output_share: Vec::new() }))
}

//@ harness: c07_poplar1_verifier_message_inner
//@ prop: C07,C08
//@ tier: quick
//@ cost: 60
//@ funcs: Poplar1VerifierMessage::{decode_with_param, encoded_len}, SketchState::decode_sketch
//@ bounds: inner-level state in round one: every 24-byte string, plus 23 and 25 bytes; round two: the empty string and every 1-byte string
//@ asserts: round one: accepted iff the three little-endian 64-bit values are below the modulus, as SketchInner with encoded_len 24; other lengths refused; round two: only the empty message (Done, encoded_len 0)
//@ stubs: alloc::fmt::format
#[kani::proof]
#[kani::unwind(10)]
#[kani::stub(alloc::fmt::format, fmt_stub)]
pub fn c07_poplar1_verifier_message_inner() {
    let st1 = inner_state(false);
    let b: [u8; 25] = kani::any();
    let r = Poplar1VerifierMessage::get_decoded_with_param(&st1, &b[..24]);
    assert_eq!(r.is_ok(), le64(&b[0..]) < P64 && le64(&b[8..]) < P64 && le64(&b[16..]) < P64);
    if let Ok(v) = &r {
        assert!(matches!(v.0, VerifierMessageVariant::SketchInner(_)));
        assert_eq!(v.encoded_len(), Some(24));
    }
    let short = Poplar1VerifierMessage::get_decoded_with_param(&st1, &b[..23]);
    let long = Poplar1VerifierMessage::get_decoded_with_param(&st1, &b[..]);
    assert!(short.is_err() && long.is_err());
    let st2 = inner_state(true);
    let r0 = Poplar1VerifierMessage::get_decoded_with_param(&st2, &b[..0]);
    match &r0 {
        Ok(v) => {
            assert!(matches!(v.0, VerifierMessageVariant::Done));
            assert_eq!(v.encoded_len(), Some(0));
        }
        Err(_) => panic!("the empty message is Done in round two"),
    }
    let r1 = Poplar1VerifierMessage::get_decoded_with_param(&st2, &b[..1]);
    assert!(r1.is_err());
    kani::cover!(r.is_ok());
    kani::cover!(r.is_err());
    core::mem::forget((r, short, long, r0, r1, st1, st2));
}

//@ harness: c07_poplar1_verifier_message_enc
//@ prop: C07
//@ tier: quick
//@ cost: 40
//@ funcs: Poplar1VerifierMessage::{encode, encoded_len}
//@ bounds: SketchInner with three arbitrary Field64 elements; Done
//@ asserts: 24 bytes are produced = encoded_len (element order is decided at the element level by c07_poplar1_verifier_message_inner + the Field64 codec); Done encodes to nothing
//@ stubs: alloc::fmt::format
#[kani::proof]
#[kani::unwind(10)]
#[kani::stub(alloc::fmt::format, fmt_stub)]
pub fn c07_poplar1_verifier_message_enc() {
    let e = [any_f64(), any_f64(), any_f64()];
    let v = Poplar1VerifierMessage(VerifierMessageVariant::SketchInner(e));
    let mut out = Vec::with_capacity(24);
    let r = v.encode(&mut out);
    assert!(r.is_ok());
    assert_eq!(out.len(), 24);
    assert_eq!(v.encoded_len(), Some(24));
    let d = Poplar1VerifierMessage(VerifierMessageVariant::Done);
    let mut out0 = Vec::new();
    let r0 = d.encode(&mut out0);
    assert!(r0.is_ok() && out0.is_empty() && d.encoded_len() == Some(0));
    kani::cover!(true);
    core::mem::forget((r, r0, out, out0));
}

//@ harness: c07_poplar1_fieldvec_inner
//@ prop: C07,C08
//@ tier: quick
//@ cost: 60
//@ funcs: Poplar1FieldVec::{decode_with_param(state), encoded_len}, SketchState::decode_sketch_share
//@ bounds: inner-level state: round one (three elements, every 24-byte string; 23/25 bytes) and round two (one element, every 8-byte string; 7/9 bytes)
//@ asserts: accepted iff every element is below the modulus; Inner vector of the expected length; encoded_len = input length; other lengths refused
//@ stubs: alloc::fmt::format
#[kani::proof]
#[kani::unwind(10)]
#[kani::stub(alloc::fmt::format, fmt_stub)]
pub fn c07_poplar1_fieldvec_inner() {
    let st1 = inner_state(false);
    let st2 = inner_state(true);
    let b: [u8; 25] = kani::any();
    let r = Poplar1FieldVec::get_decoded_with_param(&st1, &b[..24]);
    assert_eq!(r.is_ok(), le64(&b[0..]) < P64 && le64(&b[8..]) < P64 && le64(&b[16..]) < P64);
    if let Ok(v) = &r {
        assert!(matches!(v, Poplar1FieldVec::Inner(d) if d.len() == 3));
        assert_eq!(v.encoded_len(), Some(24));
    }
    let a = Poplar1FieldVec::get_decoded_with_param(&st1, &b[..23]);
    let c = Poplar1FieldVec::get_decoded_with_param(&st1, &b[..]);
    assert!(a.is_err() && c.is_err());
    let r2 = Poplar1FieldVec::get_decoded_with_param(&st2, &b[..8]);
    assert_eq!(r2.is_ok(), le64(&b[0..]) < P64);
    if let Ok(v) = &r2 {
        assert!(matches!(v, Poplar1FieldVec::Inner(d) if d.len() == 1));
        assert_eq!(v.encoded_len(), Some(8));
    }
    let a2 = Poplar1FieldVec::get_decoded_with_param(&st2, &b[..7]);
    let c2 = Poplar1FieldVec::get_decoded_with_param(&st2, &b[..9]);
    assert!(a2.is_err() && c2.is_err());
    kani::cover!(r.is_ok() && r2.is_ok());
    kani::cover!(r.is_err());
    core::mem::forget((r, a, c, r2, a2, c2, st1, st2));
}

//@ harness: c07_poplar1_verifier_state_elem
//@ prop: C07,C08
//@ tier: quick
//@ cost: 60
//@ funcs: VerifierState::<Field64>::decode_with_param (element canonicity)
//@ bounds: 14-byte strings with concrete inner / round-two tags and count 1, the 8 element bytes symbolic
//@ asserts: accepted iff the element is below the modulus
//@ stubs: alloc::fmt::format
#[kani::proof]
#[kani::unwind(10)]
#[kani::stub(alloc::fmt::format, fmt_stub)]
pub fn c07_poplar1_verifier_state_elem() {
    let vdaf = p1();
    let e: [u8; 8] = kani::any();
    let b: [u8; 14] = [0, 1, 0, 0, 0, 1, e[0], e[1], e[2], e[3], e[4], e[5], e[6], e[7]];
    let r = Poplar1VerifierState::get_decoded_with_param(&(&vdaf, 0usize), &b[..]);
    assert_eq!(r.is_ok(), le64(&e[..]) < P64);
    kani::cover!(r.is_ok());
    kani::cover!(r.is_err());
    core::mem::forget(r);
}

//@ harness: c07_poplar1_verifier_state_enc
//@ prop: C07
//@ tier: quick
//@ cost: 60
//@ funcs: Poplar1VerifierState::{encode, encoded_len} (inner level)
//@ bounds: round-one state (arbitrary A/B shares) and round-two state, each with one arbitrary output-share element
//@ asserts: level tag 0, sketch tag, be32 count at the specified offsets; length = encoded_len (30 resp. 14)
//@ stubs: alloc::fmt::format
#[kani::proof]
#[kani::unwind(10)]
#[kani::stub(alloc::fmt::format, fmt_stub)]
pub fn c07_poplar1_verifier_state_enc() {
    let (a, b, o) = (any_f64(), any_f64(), any_f64());
    let v1 = Poplar1VerifierState(VerifierStateVariant::Inner(VerifierState {
        sketch: SketchState::RoundOne { A_share: a, B_share: b, is_leader: kani::any() },
        output_share: vec![o],
    }));
    let mut out = Vec::with_capacity(30);
    let r = v1.encode(&mut out);
    assert!(r.is_ok());
    assert_eq!(out.len(), 30);
    assert_eq!(v1.encoded_len(), Some(30));
    assert!(out[0] == 0 && out[1] == 0);
    assert!(out[18] == 0 && out[19] == 0 && out[20] == 0 && out[21] == 1);
    let v2 = Poplar1VerifierState(VerifierStateVariant::Inner(VerifierState { sketch: SketchState::RoundTwo, output_share: vec![o] }));
    let mut out2 = Vec::with_capacity(14);
    let r2 = v2.encode(&mut out2);
    assert!(r2.is_ok());
    assert_eq!(out2.len(), 14);
    assert_eq!(v2.encoded_len(), Some(14));
    assert!(out2[0] == 0 && out2[1] == 1 && out2[5] == 1);
    kani::cover!(true);
    core::mem::forget((r, r2, out, out2, v1, v2));
}
