// C07/C08 for the Poplar1 messages that can be reached without the bitvec-based prefix machinery
// (mounted inside vdaf::poplar1: private fields are visible, values are built directly).
use super::super::*;
use crate::codec::{Decode, Encode};
use crate::field::{Field255, Field64, FieldElement};
use crate::vdaf::xof::Seed;

fn fmt_stub(_: core::fmt::Arguments<'_>) -> String {
    String::new()
}

fn any_f64() -> Field64 {
    let raw: u64 = kani::any();
    match Field64::verif_from_raw(raw) {
        Some(e) => e,
        None => {
            kani::assume(false);
            <Field64 as FieldElement>::zero()
        }
    }
}

macro_rules! input_share_len {
    ($name:ident, $S:expr, $inner:expr, $total:expr) => {
        #[kani::proof]
        #[kani::unwind(36)]
        #[kani::stub(alloc::fmt::format, fmt_stub)]
        pub fn $name() {
            let mut corr_inner = Vec::with_capacity($inner);
            for _ in 0..$inner {
                corr_inner.push([any_f64(), any_f64()]);
            }
            let v = Poplar1InputShare::<$S> {
                idpf_key: Seed::from_bytes(kani::any()),
                corr_seed: Seed::from_bytes(kani::any()),
                corr_inner,
                corr_leaf: [<Field255 as FieldElement>::zero(), <Field255 as FieldElement>::one()],
            };
            let mut out = Vec::with_capacity($total);
            let e = v.encode(&mut out);
            assert!(e.is_ok());
            // wire format: 16-byte IDPF key, SEED_SIZE-byte seed, 2*8 bytes per inner level, 2*32 bytes for the leaf level
            assert_eq!(out.len(), 16 + $S + 16 * $inner + 64);
            assert_eq!(v.encoded_len(), Some(out.len()));
            kani::cover!(true);
            core::mem::forget((v, out, e));
        }
    };
}

//@ harness: c07_poplar1_input_share_len_s16
//@ prop: C07
//@ tier: quick
//@ cost: 60
//@ funcs: Poplar1InputShare::<16>::{encode, encoded_len}
//@ bounds: SEED_SIZE 16; one inner level with arbitrary correlated randomness, arbitrary seeds; leaf elements concrete
//@ asserts: bytes produced = 16 + SEED_SIZE + 16*levels + 64 = encoded_len()
//@ stubs: alloc::fmt::format
input_share_len!(c07_poplar1_input_share_len_s16, 16, 1, 112);

//@ harness: c07_poplar1_input_share_len_s32
//@ prop: C07
//@ tier: quick
//@ cost: 60
//@ funcs: Poplar1InputShare::<32>::{encode, encoded_len}
//@ bounds: SEED_SIZE 32 (the shipped Poplar1 instantiation); one inner level; arbitrary seeds
//@ asserts: bytes produced = 16 + SEED_SIZE + 16*levels + 64 = encoded_len()
//@ stubs: alloc::fmt::format
input_share_len!(c07_poplar1_input_share_len_s32, 32, 1, 128);

//@ harness: c08_poplar1_agg_param_level
//@ prop: C08,C07
//@ tier: quick
//@ cost: 60
//@ funcs: Poplar1AggregationParam::decode (header arithmetic), Poplar1AggregationParam::try_from_prefixes (empty list)
//@ bounds: every 6-byte string with a zero prefix count: the level field ranges over all of u16 (incl. 0xFFFF)
//@ asserts: returns an error (empty prefix list) - never panics or overflows in the level arithmetic
//@ stubs: alloc::fmt::format
#[kani::proof]
#[kani::unwind(10)]
#[kani::stub(alloc::fmt::format, fmt_stub)]
pub fn c08_poplar1_agg_param_level() {
    let l: [u8; 2] = kani::any();
    let b: [u8; 6] = [l[0], l[1], 0, 0, 0, 0];
    let r = Poplar1AggregationParam::get_decoded(&b[..]);
    assert!(r.is_err());
    kani::cover!(l[0] == 255 && l[1] == 255);
    kani::cover!(l[0] == 0 && l[1] == 0);
    core::mem::forget(r);
}

//@ harness: c07_poplar1_agg_param_len
//@ prop: C07,C08
//@ tier: quick
//@ cost: 30
//@ funcs: Poplar1AggregationParam::encoded_len
//@ bounds: every level value (u16) with an empty prefix list (value built directly)
//@ asserts: encoded_len() = Some(6) (2-byte level + 4-byte count), no overflow
//@ stubs: alloc::fmt::format
#[kani::proof]
#[kani::unwind(4)]
#[kani::stub(alloc::fmt::format, fmt_stub)]
pub fn c07_poplar1_agg_param_len() {
    let v = Poplar1AggregationParam { level: kani::any(), prefixes: Vec::new() };
    assert_eq!(v.encoded_len(), Some(6));
    kani::cover!(v.level == u16::MAX);
    core::mem::forget(v);
}
