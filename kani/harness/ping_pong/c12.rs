// C12 — ping-pong topology follows the specified state machine and survives restarts.
// Mounted inside topology::ping_pong (private `continued`, PingPongContinuationInner are visible).
// The routines under test are the crate's generic ping-pong functions instantiated with `Toy`, an
// order-sensitive instrumented VDAF defined here through the public Aggregator trait:
//   * R in {1,2,3} verification rounds,
//   * a verifier share is one byte that names (role, round) and only decodes against a state of the same round
//     (round-dependent wire format, as in Poplar1),
//   * verifier_shares_to_message concatenates the shares in the order it receives them,
//   * verify_next accepts a message only if it is [leader share, helper share] of the state's round.
// The oracle (`expected_*`) is the VDAF draft's ping-pong state machine written independently.
use super::super::*;
use crate::codec::{CodecError, Decode, Encode, ParameterizedDecode};
use crate::vdaf::{Aggregatable, Aggregator, VdafError, VerifyTransition};
use std::io::Cursor;

fn fmt_stub(_: core::fmt::Arguments<'_>) -> String {
    String::new()
}

#[derive(Clone, Debug)]
pub struct Toy {
    rounds: u8,
}

fn tag(role: u8, round: u8) -> u8 {
    1 + role * 8 + round
}

/// the round a share byte claims (None for bytes that are not shares)
fn share_round(b: u8) -> Option<u8> {
    if b == 0 || b > 16 {
        None
    } else {
        Some((b - 1) % 8)
    }
}

fn out_of(role: u8, rounds: u8) -> u8 {
    100 + role * 10 + rounds
}

#[derive(Clone, Debug, PartialEq, Eq)]
pub struct ToyState {
    role: u8,
    round: u8,
}
#[derive(Clone, Debug, PartialEq, Eq)]
pub struct ToyShare(u8);
#[derive(Clone, Debug, PartialEq, Eq)]
pub struct ToyMsg([u8; 2]);
#[derive(Clone, Debug, PartialEq, Eq)]
pub struct ToyOut(u8);
#[derive(Clone, Debug, PartialEq, Eq)]
pub struct ToyAgg(u8);
#[derive(Clone, Debug, PartialEq, Eq)]
pub struct ToyIn(u8);

impl Encode for ToyState {
    fn encode(&self, bytes: &mut Vec<u8>) -> Result<(), CodecError> {
        bytes.push(self.role);
        bytes.push(self.round);
        Ok(())
    }
    fn encoded_len(&self) -> Option<usize> {
        Some(2)
    }
}
impl<'a> ParameterizedDecode<(&'a Toy, usize)> for ToyState {
    fn decode_with_param(_: &(&'a Toy, usize), bytes: &mut Cursor<&[u8]>) -> Result<Self, CodecError> {
        Ok(ToyState { role: u8::decode(bytes)?, round: u8::decode(bytes)? })
    }
}
impl Encode for ToyShare {
    fn encode(&self, bytes: &mut Vec<u8>) -> Result<(), CodecError> {
        bytes.push(self.0);
        Ok(())
    }
    fn encoded_len(&self) -> Option<usize> {
        Some(1)
    }
}
impl ParameterizedDecode<ToyState> for ToyShare {
    // the wire format of a share depends on the round of the state it is decoded against (as in Poplar1, where a
    // round-one share has three elements and a round-two share one): a share of round r only decodes under a
    // round-r state
    fn decode_with_param(st: &ToyState, bytes: &mut Cursor<&[u8]>) -> Result<Self, CodecError> {
        let b = u8::decode(bytes)?;
        if share_round(b) != Some(st.round) {
            return Err(CodecError::UnexpectedValue);
        }
        Ok(ToyShare(b))
    }
}
impl Encode for ToyMsg {
    fn encode(&self, bytes: &mut Vec<u8>) -> Result<(), CodecError> {
        bytes.push(self.0[0]);
        bytes.push(self.0[1]);
        Ok(())
    }
    fn encoded_len(&self) -> Option<usize> {
        Some(2)
    }
}
impl ParameterizedDecode<ToyState> for ToyMsg {
    fn decode_with_param(_: &ToyState, bytes: &mut Cursor<&[u8]>) -> Result<Self, CodecError> {
        Ok(ToyMsg([u8::decode(bytes)?, u8::decode(bytes)?]))
    }
}
impl Encode for ToyOut {
    fn encode(&self, bytes: &mut Vec<u8>) -> Result<(), CodecError> {
        bytes.push(self.0);
        Ok(())
    }
}
impl<'a> ParameterizedDecode<(&'a Toy, &'a ())> for ToyOut {
    fn decode_with_param(_: &(&'a Toy, &'a ()), bytes: &mut Cursor<&[u8]>) -> Result<Self, CodecError> {
        Ok(ToyOut(u8::decode(bytes)?))
    }
}
impl Encode for ToyAgg {
    fn encode(&self, bytes: &mut Vec<u8>) -> Result<(), CodecError> {
        bytes.push(self.0);
        Ok(())
    }
}
impl<'a> ParameterizedDecode<(&'a Toy, &'a ())> for ToyAgg {
    fn decode_with_param(_: &(&'a Toy, &'a ()), bytes: &mut Cursor<&[u8]>) -> Result<Self, CodecError> {
        Ok(ToyAgg(u8::decode(bytes)?))
    }
}
impl From<ToyOut> for ToyAgg {
    fn from(o: ToyOut) -> Self {
        ToyAgg(o.0)
    }
}
impl Aggregatable for ToyAgg {
    type OutputShare = ToyOut;
    fn merge(&mut self, o: &Self) -> Result<(), VdafError> {
        self.0 = self.0.wrapping_add(o.0);
        Ok(())
    }
    fn accumulate(&mut self, o: &ToyOut) -> Result<(), VdafError> {
        self.0 = self.0.wrapping_add(o.0);
        Ok(())
    }
}
impl Encode for ToyIn {
    fn encode(&self, bytes: &mut Vec<u8>) -> Result<(), CodecError> {
        bytes.push(self.0);
        Ok(())
    }
}
impl<'a> ParameterizedDecode<(&'a Toy, usize)> for ToyIn {
    fn decode_with_param(_: &(&'a Toy, usize), bytes: &mut Cursor<&[u8]>) -> Result<Self, CodecError> {
        Ok(ToyIn(u8::decode(bytes)?))
    }
}

impl crate::vdaf::Vdaf for Toy {
    type Measurement = u8;
    type AggregateResult = u8;
    type AggregationParam = ();
    type PublicShare = ();
    type InputShare = ToyIn;
    type OutputShare = ToyOut;
    type AggregateShare = ToyAgg;
    fn algorithm_id(&self) -> u32 {
        0xFFFF_1234
    }
    fn num_aggregators(&self) -> usize {
        2
    }
}

impl Aggregator<0, 16> for Toy {
    type VerifyState = ToyState;
    type VerifierShare = ToyShare;
    type VerifierMessage = ToyMsg;

    fn verify_init(
        &self,
        _: &[u8; 0],
        _: &[u8],
        agg_id: usize,
        _: &(),
        _: &[u8; 16],
        _: &(),
        _: &ToyIn,
    ) -> Result<(ToyState, ToyShare), VdafError> {
        let role = agg_id as u8;
        Ok((ToyState { role, round: 0 }, ToyShare(tag(role, 0))))
    }

    fn verifier_shares_to_message<M: IntoIterator<Item = ToyShare>>(
        &self,
        _: &[u8],
        _: &(),
        inputs: M,
    ) -> Result<ToyMsg, VdafError> {
        // order-sensitive: records the shares in the order they arrive
        let mut it = inputs.into_iter();
        let a = it.next();
        let b = it.next();
        let c = it.next();
        match (a, b, c) {
            (Some(a), Some(b), None) => Ok(ToyMsg([a.0, b.0])),
            _ => Err(VdafError::Uncategorized(String::new())),
        }
    }

    fn verify_next(&self, _: &[u8], state: ToyState, msg: ToyMsg) -> Result<VerifyTransition<Self, 0, 16>, VdafError> {
        if msg.0 != [tag(0, state.round), tag(1, state.round)] {
            return Err(VdafError::Uncategorized(String::new()));
        }
        if state.round + 1 >= self.rounds {
            Ok(VerifyTransition::Finish(ToyOut(out_of(state.role, self.rounds))))
        } else {
            let r = state.round + 1;
            Ok(VerifyTransition::Continue(ToyState { role: state.role, round: r }, ToyShare(tag(state.role, r))))
        }
    }

    fn aggregate_init(&self, _: &()) -> ToyAgg {
        ToyAgg(0)
    }

    fn is_agg_param_valid(_: &(), prev: &[()]) -> bool {
        prev.is_empty()
    }
}

type Cont = PingPongContinuation<0, 16, Toy>;

fn any_toy() -> Toy {
    let rounds: u8 = kani::any();
    kani::assume(rounds >= 1 && rounds <= 3);
    Toy { rounds }
}

/// An arbitrary inbound message with small concrete payload lengths; `shape` selects the variant
/// and the payload lengths (honest: message 2 bytes, share 1 byte; also too short / too long).
fn any_inbound(shape: u8, p: [u8; 4]) -> PingPongMessage {
    match shape {
        0 => PingPongMessage::Initialize { verifier_share: vec![p[0]] },
        1 => PingPongMessage::Continue { verifier_message: vec![p[0], p[1]], verifier_share: vec![p[2]] },
        2 => PingPongMessage::Finish { verifier_message: vec![p[0], p[1]] },
        3 => PingPongMessage::Continue { verifier_message: vec![p[0]], verifier_share: vec![p[2]] }, // undecodable message
        4 => PingPongMessage::Continue { verifier_message: vec![p[0], p[1]], verifier_share: vec![p[2], p[3]] }, // undecodable share
        5 => PingPongMessage::Finish { verifier_message: vec![p[0], p[1], p[2]] }, // trailing byte
        6 => PingPongMessage::Continue { verifier_message: vec![p[0], p[1]], verifier_share: vec![] },
        _ => PingPongMessage::Finish { verifier_message: vec![] },
    }
}

//@ harness: c12_continued_one_step
//@ prop: C12
//@ tier: quick
//@ cost: 150
//@ funcs: PingPongTopology::{leader_continued, helper_continued}, PingPongTopologyPrivate::continued (A = order-sensitive Toy VDAF)
//@ bounds: rounds 1..=3, host round any < rounds, both roles, inbound message of every kind with every payload byte value (payload lengths 0..3)
//@ asserts: Initialize refused; output share only for (Finish transition, Finish message); (Continue,Finish)/(Finish,Continue) refused; undecodable payloads refused; combined shares = [leader, helper] for both roles; next state and message exactly as the draft's transition
//@ stubs: alloc::fmt::format
#[kani::proof]
#[kani::unwind(5)]
#[kani::stub(alloc::fmt::format, fmt_stub)]
pub fn c12_continued_one_step() {
    let toy = any_toy();
    let is_leader: bool = kani::any();
    let role: u8 = if is_leader { 0 } else { 1 };
    let round: u8 = kani::any();
    kani::assume(round < toy.rounds);
    let state = ToyState { role, round };
    let shape: u8 = kani::any();
    kani::assume(shape <= 7);
    let p: [u8; 4] = kani::any();
    let inbound = any_inbound(shape, p);

    let got = if is_leader {
        toy.leader_continued(b"", &(), state.clone(), &inbound)
    } else {
        toy.helper_continued(b"", &(), state.clone(), &inbound)
    };

    // oracle: the draft's ping_pong_continued
    let msg_ok = p[0] == tag(0, round) && p[1] == tag(1, round);
    let finishing = round + 1 >= toy.rounds;
    match shape {
        1 => {
            if msg_ok && !finishing && share_round(p[2]) == Some(round + 1) {
                let r = round + 1;
                let host = tag(role, r);
                let peer = p[2];
                let want = if is_leader { [host, peer] } else { [peer, host] };
                match &got {
                    Ok(c) => match &c.0 {
                        PingPongContinuationInner::Transition { previous_verifier_state, current_verifier_message } => {
                            assert!(*previous_verifier_state == ToyState { role, round: r });
                            assert!(current_verifier_message.0 == want);
                        }
                        _ => panic!("no output share may be released on a Continue message"),
                    },
                    Err(_) => panic!("valid continue step refused"),
                }
            } else {
                assert!(got.is_err());
            }
        }
        2 => {
            if msg_ok && finishing {
                match &got {
                    Ok(c) => match &c.0 {
                        PingPongContinuationInner::OutputShare(o) => assert!(o.0 == out_of(role, toy.rounds)),
                        _ => panic!("finish step must yield the output share"),
                    },
                    Err(_) => panic!("valid finish step refused"),
                }
            } else {
                assert!(got.is_err());
            }
        }
        _ => assert!(got.is_err()), // Initialize, undecodable or mis-sized payloads
    }
    kani::cover!(shape == 1 && got.is_ok() && !is_leader);
    kani::cover!(shape == 2 && got.is_ok());
    kani::cover!(shape == 0);
    core::mem::forget((got, inbound));
}

//@ harness: c12_helper_initialized
//@ prop: C12
//@ tier: quick
//@ cost: 60
//@ funcs: PingPongTopology::helper_initialized
//@ bounds: rounds 1..=3; inbound message of every kind, every payload byte value
//@ asserts: only Initialize with a decodable share is accepted; the continuation holds the helper's round-0 state and the message [leader share, helper share]
//@ stubs: alloc::fmt::format
#[kani::proof]
#[kani::unwind(5)]
#[kani::stub(alloc::fmt::format, fmt_stub)]
pub fn c12_helper_initialized() {
    let toy = any_toy();
    let shape: u8 = kani::any();
    kani::assume(shape <= 7);
    let p: [u8; 4] = kani::any();
    let inbound = if shape == 7 {
        PingPongMessage::Initialize { verifier_share: vec![p[0], p[1]] } // undecodable share
    } else {
        any_inbound(shape, p)
    };
    let got = toy.helper_initialized(&[], b"", &(), &[0; 16], &(), &ToyIn(3), &inbound);
    if shape == 0 && share_round(p[0]) == Some(0) {
        match &got {
            Ok(c) => match &c.0 {
                PingPongContinuationInner::Transition { previous_verifier_state, current_verifier_message } => {
                    assert!(*previous_verifier_state == ToyState { role: 1, round: 0 });
                    assert!(current_verifier_message.0 == [p[0], tag(1, 0)]);
                }
                _ => panic!("helper cannot finish at initialization"),
            },
            Err(_) => panic!("valid initialize refused"),
        }
    } else {
        assert!(got.is_err());
    }
    kani::cover!(shape == 0);
    kani::cover!(shape == 1);
    core::mem::forget((got, inbound));
}

//@ harness: c12_leader_initialized
//@ prop: C12
//@ tier: quick
//@ cost: 20
//@ funcs: PingPongTopology::leader_initialized
//@ bounds: rounds 1..=3
//@ asserts: yields the leader's round-0 state and an Initialize message carrying exactly the leader's encoded verifier share
//@ stubs: alloc::fmt::format
#[kani::proof]
#[kani::unwind(5)]
#[kani::stub(alloc::fmt::format, fmt_stub)]
pub fn c12_leader_initialized() {
    let toy = any_toy();
    let got = toy.leader_initialized(&[], b"", &(), &[0; 16], &(), &ToyIn(kani::any()));
    match &got {
        Ok(c) => {
            assert!(c.verifier_state == ToyState { role: 0, round: 0 });
            match &c.message {
                PingPongMessage::Initialize { verifier_share } => {
                    assert!(verifier_share.len() == 1 && verifier_share[0] == tag(0, 0));
                }
                _ => panic!("leader must start with Initialize"),
            }
        }
        Err(_) => panic!("leader_initialized failed"),
    }
    kani::cover!(true);
    core::mem::forget(got);
}

//@ harness: c12_continuation_evaluate_restart
//@ prop: C12
//@ tier: quick
//@ cost: 150
//@ funcs: PingPongContinuation::{evaluate, evaluate_transition, encode, encoded_len, decode_with_param}
//@ bounds: rounds 1..=3; arbitrary stored state (role, round < rounds) and arbitrary 2-byte verifier message; also the finished continuation
//@ asserts: evaluate = the draft's ping_pong_transition (message kind, payloads, output share); decode(encode(c)).evaluate() = c.evaluate(), twice; encoded_len exact; encoding a finished continuation is refused
//@ stubs: alloc::fmt::format
#[kani::proof]
#[kani::unwind(5)]
#[kani::stub(alloc::fmt::format, fmt_stub)]
pub fn c12_continuation_evaluate_restart() {
    let toy = any_toy();
    let role: u8 = kani::any();
    kani::assume(role <= 1);
    let round: u8 = kani::any();
    kani::assume(round < toy.rounds);
    let m: [u8; 2] = kani::any();
    let c: Cont = PingPongContinuationInner::Transition {
        previous_verifier_state: ToyState { role, round },
        current_verifier_message: ToyMsg(m),
    }
    .into();
    let s1 = c.evaluate(b"", &toy);
    let msg_ok = m[0] == tag(0, round) && m[1] == tag(1, round);
    let finishing = round + 1 >= toy.rounds;
    match &s1 {
        Ok(PingPongState::Continued(Continued { message, verifier_state })) => {
            assert!(msg_ok && !finishing);
            assert!(*verifier_state == ToyState { role, round: round + 1 });
            match message {
                PingPongMessage::Continue { verifier_message, verifier_share } => {
                    assert!(verifier_message.len() == 2 && verifier_message[0] == m[0] && verifier_message[1] == m[1]);
                    assert!(verifier_share.len() == 1 && verifier_share[0] == tag(role, round + 1));
                }
                _ => panic!("a continuing party sends Continue"),
            }
        }
        Ok(PingPongState::FinishedWithOutbound { output_share, message }) => {
            assert!(msg_ok && finishing);
            assert!(output_share.0 == out_of(role, toy.rounds));
            match message {
                PingPongMessage::Finish { verifier_message } => {
                    assert!(verifier_message.len() == 2 && verifier_message[0] == m[0] && verifier_message[1] == m[1]);
                }
                _ => panic!("a finishing party sends Finish"),
            }
        }
        Ok(PingPongState::Finished { .. }) => panic!("a transition never evaluates to Finished"),
        Err(_) => assert!(!msg_ok),
    }
    // persist + reload
    let mut bytes = Vec::with_capacity(4);
    let e = c.encode(&mut bytes);
    assert!(e.is_ok());
    assert_eq!(bytes.len(), 4);
    assert_eq!(c.encoded_len(), Some(4));
    let reloaded = Cont::get_decoded_with_param(&(&toy, role as usize), &bytes);
    match &reloaded {
        Ok(c2) => {
            let s2 = c2.evaluate(b"", &toy);
            let s3 = c2.evaluate(b"", &toy);
            match (&s1, &s2, &s3) {
                (Ok(a), Ok(b), Ok(d)) => assert!(a == b && b == d),
                (Err(_), Err(_), Err(_)) => {}
                _ => panic!("reloaded continuation evaluates differently"),
            }
            core::mem::forget((s2, s3));
        }
        Err(_) => panic!("own encoding refused"),
    }
    // a finished continuation evaluates to Finished and cannot be encoded
    let f: Cont = PingPongContinuationInner::OutputShare(ToyOut(m[0])).into();
    match f.evaluate(b"", &toy) {
        Ok(PingPongState::Finished { output_share }) => assert!(output_share.0 == m[0]),
        _ => panic!("finished continuation must evaluate to Finished"),
    }
    let mut fb = Vec::new();
    let fe = f.encode(&mut fb);
    assert!(fe.is_err());
    assert!(f.encoded_len().is_none());
    kani::cover!(matches!(s1, Ok(PingPongState::Continued(_))));
    kani::cover!(matches!(s1, Ok(PingPongState::FinishedWithOutbound { .. })));
    kani::cover!(s1.is_err());
    core::mem::forget((s1, e, bytes, reloaded, c, f, fb, fe));
}

fn persist(c: Cont, toy: &Toy, role: usize) -> Cont {
    // a party may store its continuation and resume from the stored bytes at any point
    let bytes = c.get_encoded().unwrap();
    Cont::get_decoded_with_param(&(toy, role), &bytes).unwrap()
}

fn expect_continue(s: PingPongState<ToyState, ToyOut>) -> (ToyState, PingPongMessage) {
    match s {
        PingPongState::Continued(c) => {
            assert!(matches!(c.message, PingPongMessage::Continue { .. }));
            (c.verifier_state, c.message)
        }
        _ => panic!("expected Continued"),
    }
}

fn expect_finish_outbound(s: PingPongState<ToyState, ToyOut>) -> (u8, PingPongMessage) {
    match s {
        PingPongState::FinishedWithOutbound { output_share, message } => {
            assert!(matches!(message, PingPongMessage::Finish { .. }));
            (output_share.0, message)
        }
        _ => panic!("expected FinishedWithOutbound"),
    }
}

fn expect_finished(s: PingPongState<ToyState, ToyOut>) -> u8 {
    match s {
        PingPongState::Finished { output_share } => output_share.0,
        _ => panic!("expected Finished"),
    }
}

//@ harness: c12_full_exchange_r1
//@ prop: C12
//@ tier: quick
//@ cost: 60
//@ funcs: leader_initialized, helper_initialized, leader_continued, PingPongContinuation::{evaluate, encode, decode_with_param} (whole exchange)
//@ bounds: 1 verification round; the helper's continuation is persisted (encoded, decoded) before evaluation; nonce and input shares symbolic
//@ asserts: initialize / finish; both parties finish with the output shares of a direct broadcast execution of the VDAF
//@ stubs: alloc::fmt::format
#[kani::proof]
#[kani::unwind(5)]
#[kani::stub(alloc::fmt::format, fmt_stub)]
pub fn c12_full_exchange_r1() {
    let toy = Toy { rounds: 1 };
    let nonce: [u8; 16] = kani::any();
    let l0 = toy.leader_initialized(&[], b"", &(), &nonce, &(), &ToyIn(kani::any())).unwrap();
    assert!(matches!(l0.message, PingPongMessage::Initialize { .. }));
    let hc = toy.helper_initialized(&[], b"", &(), &nonce, &(), &ToyIn(kani::any()), &l0.message).unwrap();
    let hc = persist(hc, &toy, 1);
    let (out_h, m1) = expect_finish_outbound(hc.evaluate(b"", &toy).unwrap());
    let lc = toy.leader_continued(b"", &(), l0.verifier_state, &m1).unwrap();
    let out_l = expect_finished(lc.evaluate(b"", &toy).unwrap());
    assert!(out_l == out_of(0, 1) && out_h == out_of(1, 1));
    kani::cover!(true);
}

//@ harness: c12_full_exchange_r2
//@ prop: C12
//@ tier: quick
//@ cost: 90
//@ funcs: leader_initialized, helper_initialized, leader_continued, helper_continued, PingPongContinuation::{evaluate, encode, decode_with_param}
//@ bounds: 2 verification rounds; every encodable continuation is persisted before evaluation
//@ asserts: initialize / continue / finish; outputs of a direct broadcast execution
//@ stubs: alloc::fmt::format
#[kani::proof]
#[kani::unwind(5)]
#[kani::stub(alloc::fmt::format, fmt_stub)]
pub fn c12_full_exchange_r2() {
    let toy = Toy { rounds: 2 };
    let nonce: [u8; 16] = kani::any();
    let l0 = toy.leader_initialized(&[], b"", &(), &nonce, &(), &ToyIn(kani::any())).unwrap();
    let hc = persist(toy.helper_initialized(&[], b"", &(), &nonce, &(), &ToyIn(kani::any()), &l0.message).unwrap(), &toy, 1);
    let (h1, m1) = expect_continue(hc.evaluate(b"", &toy).unwrap());
    let lc = persist(toy.leader_continued(b"", &(), l0.verifier_state, &m1).unwrap(), &toy, 0);
    let (out_l, m2) = expect_finish_outbound(lc.evaluate(b"", &toy).unwrap());
    let hc2 = toy.helper_continued(b"", &(), h1, &m2).unwrap();
    let out_h = expect_finished(hc2.evaluate(b"", &toy).unwrap());
    assert!(out_l == out_of(0, 2) && out_h == out_of(1, 2));
    kani::cover!(true);
}

//@ harness: c12_full_exchange_r3
//@ prop: C12
//@ tier: thorough
//@ cost: 120
//@ funcs: leader_initialized, helper_initialized, leader_continued, helper_continued, PingPongContinuation::{evaluate, encode, decode_with_param}
//@ bounds: 3 verification rounds; every encodable continuation is persisted before evaluation
//@ asserts: initialize / continue / continue / finish; outputs of a direct broadcast execution
//@ stubs: alloc::fmt::format
#[kani::proof]
#[kani::unwind(5)]
#[kani::stub(alloc::fmt::format, fmt_stub)]
pub fn c12_full_exchange_r3() {
    let toy = Toy { rounds: 3 };
    let nonce: [u8; 16] = kani::any();
    let l0 = toy.leader_initialized(&[], b"", &(), &nonce, &(), &ToyIn(kani::any())).unwrap();
    let hc = persist(toy.helper_initialized(&[], b"", &(), &nonce, &(), &ToyIn(kani::any()), &l0.message).unwrap(), &toy, 1);
    let (h1, m1) = expect_continue(hc.evaluate(b"", &toy).unwrap());
    let lc = persist(toy.leader_continued(b"", &(), l0.verifier_state, &m1).unwrap(), &toy, 0);
    let (l1, m2) = expect_continue(lc.evaluate(b"", &toy).unwrap());
    let hc2 = persist(toy.helper_continued(b"", &(), h1, &m2).unwrap(), &toy, 1);
    let (out_h, m3) = expect_finish_outbound(hc2.evaluate(b"", &toy).unwrap());
    let lc2 = toy.leader_continued(b"", &(), l1, &m3).unwrap();
    let out_l = expect_finished(lc2.evaluate(b"", &toy).unwrap());
    assert!(out_l == out_of(0, 3) && out_h == out_of(1, 3));
    kani::cover!(true);
}
