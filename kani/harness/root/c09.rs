// C09 — field elements behave exactly as integers modulo the field prime (engine K part).
// Full-width REDC multiplication is engine M's subject (mirsmt/); here:
//  * the *same generic code* (fp::ops, make_field!) exhaustively at 8-bit words, incl. pow/inv,
//  * add/sub/neg/reducedness and the byte-decoding accept sets of the shipped fields at full width,
//  * single-word REDC at 16 bit against an independent division-free reference REDC.
use crate::codec::{Decode, Encode};
use crate::field::{
    Field128, Field16, Field255, Field64, Field8, FieldElement, FieldElementWithInteger, FieldPrio2,
    NttFriendlyFieldElement,
};
use crate::fp::verif_params::{FP16, FP8, FP8B};
use crate::fp::{FieldOps, FieldParameters, FP128, FP32, FP64};
use subtle::{Choice, ConditionallyNegatable, ConditionallySelectable, ConstantTimeEq};

// ---------------------------------------------------------------------------------------------
// 8-bit instantiations of the generic single-word code: every operand pair, spec with `%`.

macro_rules! fp8_ops {
    ($name:ident, $FP:ty) => {
        #[kani::proof]
        pub fn $name() {
            let p = <$FP as FieldParameters<u8>>::PRIME as u32;
            let (x, y): (u8, u8) = (kani::any(), kani::any());
            kani::assume((x as u32) < p && (y as u32) < p);
            let (xu, yu) = (x as u32, y as u32);
            assert_eq!(<$FP>::add(x, y) as u32, (xu + yu) % p);
            assert_eq!(<$FP>::sub(x, y) as u32, (xu + p - yu) % p);
            assert_eq!(<$FP>::neg(x) as u32, (p - xu) % p);
            // Montgomery product: r < p and r * 2^8 = x * y (mod p)
            let r = <$FP>::mul(x, y) as u32;
            assert!(r < p);
            assert_eq!((r * 256) % p, (xu * yu) % p);
            // domain conversions: montgomery(x) = x * 2^8 mod p for *every* word x, residue inverts it
            let w: u8 = kani::any();
            let m = <$FP>::montgomery(w) as u32;
            assert!(m < p);
            assert_eq!(m, ((w as u32) * 256) % p);
            assert_eq!(<$FP>::residue(m as u8) as u32, (w as u32) % p);
            assert_eq!(<$FP>::modp(w) as u32, if (w as u32) >= p { w as u32 - p } else { w as u32 });
            kani::cover!(xu + yu >= p);
            kani::cover!(x == 0 && y as u32 == p - 1);
        }
    };
}

//@ harness: c09_fp8_ops
//@ prop: C09
//@ tier: quick
//@ cost: 2
//@ funcs: fp::ops::FieldOps::{add,sub,neg,modp,montgomery,residue}, FieldMulOpsSingleWord::mul (W=u8, p=17)
//@ bounds: every operand pair < p; every word for montgomery/modp
//@ asserts: = arithmetic mod p (spec with %), results fully reduced
fp8_ops!(c09_fp8_ops, FP8);

//@ harness: c09_fp8b_ops
//@ prop: C09
//@ tier: quick
//@ cost: 8
//@ funcs: fp::ops::FieldOps::{add,sub,neg,modp,montgomery,residue}, FieldMulOpsSingleWord::mul (W=u8, p=251: carries at the word boundary)
//@ bounds: every operand pair < p; every word for montgomery/modp
//@ asserts: = arithmetic mod p (spec with %), results fully reduced
fp8_ops!(c09_fp8b_ops, FP8B);

macro_rules! fp8_pow_inv {
    ($name:ident, $FP:ty, $emax:expr) => {
        #[kani::proof]
        #[kani::unwind(10)]
        pub fn $name() {
            let p = <$FP as FieldParameters<u8>>::PRIME as u32;
            let x: u8 = kani::any();
            let e: u8 = kani::any();
            kani::assume((x as u32) < p);
            kani::assume((e as u32) <= $emax);
            let xm = <$FP>::montgomery(x);
            let got = <$FP>::residue(<$FP>::pow(xm, e)) as u32;
            // reference: right-to-left square and multiply on plain integers
            let mut acc = 1u32;
            let mut base = x as u32;
            let mut k = e as u32;
            let mut i = 0;
            while i < 8 {
                if k & 1 == 1 {
                    acc = acc * base % p;
                }
                base = base * base % p;
                k >>= 1;
                i += 1;
            }
            assert_eq!(got, acc);
            if x != 0 {
                let inv = <$FP>::inv(xm);
                assert!((inv as u32) < p);
                assert_eq!(<$FP>::residue(<$FP>::mul(xm, inv)), 1);
            }
            kani::cover!(e as u32 == $emax && x as u32 == p - 1);
            kani::cover!(e == 0);
        }
    };
}

//@ harness: c09_fp8_pow_inv
//@ prop: C09
//@ tier: quick
//@ cost: 10
//@ funcs: fp::ops::FieldOps::{pow,inv} (W=u8, p=17)
//@ bounds: every base < p, every exponent < 2^8
//@ asserts: pow = square-and-multiply reference on integers; x * inv(x) = 1 for x != 0
fp8_pow_inv!(c09_fp8_pow_inv, FP8, 255);

//@ harness: c09_fp8b_pow_inv
//@ prop: C09
//@ tier: quick
//@ cost: 20
//@ funcs: fp::ops::FieldOps::{pow,inv} (W=u8, p=251)
//@ bounds: every base < p, every exponent <= 15 (the full 8-bit exponent range is in the thorough twin)
//@ asserts: pow = square-and-multiply reference on integers; x * inv(x) = 1 for x != 0 (inv uses the full exponent p-2)
fp8_pow_inv!(c09_fp8b_pow_inv, FP8B, 15);

//@ harness: c09_fp8b_pow_inv_full
//@ prop: C09
//@ tier: thorough
//@ cost: 1500
//@ timeout: 3000
//@ funcs: fp::ops::FieldOps::{pow,inv} (W=u8, p=251)
//@ bounds: every base < p, every exponent < 2^8
//@ asserts: pow = square-and-multiply reference on integers; x * inv(x) = 1 for x != 0
fp8_pow_inv!(c09_fp8b_pow_inv_full, FP8B, 255);

// ---------------------------------------------------------------------------------------------
// 16-bit single-word REDC vs an independent division-free reference REDC (mu recomputed from p)

const fn neg_inv_pow2_16(p: u16) -> u16 {
    // Newton iteration for p^-1 mod 2^16 (p odd), then negate.
    let mut inv: u16 = 1;
    let mut i = 0;
    while i < 5 {
        inv = inv.wrapping_mul(2u16.wrapping_sub(p.wrapping_mul(inv)));
        i += 1;
    }
    inv.wrapping_neg()
}

//@ harness: c09_fp16_ops
//@ prop: C09
//@ tier: quick
//@ cost: 8
//@ funcs: fp::ops::FieldOps::{add,sub,neg}, FieldMulOpsSingleWord::mul (W=u16, DoubleWord=u32, p=61441)
//@ bounds: every operand pair < p
//@ asserts: add/sub/neg = integer spec; mul = reference REDC (t + (t*mu mod R)*p)/R with final subtraction, mu recomputed from p
#[kani::proof]
pub fn c09_fp16_ops() {
    const PR: u16 = <FP16 as FieldParameters<u16>>::PRIME;
    const MU: u16 = neg_inv_pow2_16(PR);
    let p = PR as u64;
    let (x, y): (u16, u16) = (kani::any(), kani::any());
    kani::assume((x as u64) < p && (y as u64) < p);
    let (xu, yu) = (x as u64, y as u64);
    let s = xu + yu;
    assert_eq!(FP16::add(x, y) as u64, if s >= p { s - p } else { s });
    assert_eq!(FP16::sub(x, y) as u64, if xu >= yu { xu - yu } else { xu + p - yu });
    assert_eq!(FP16::neg(x) as u64, if x == 0 { 0 } else { p - xu });
    let t = xu * yu;
    let m = ((t as u16).wrapping_mul(MU)) as u64;
    let uu = (t + m * p) >> 16;
    let r = if uu >= p { uu - p } else { uu };
    assert_eq!(FP16::mul(x, y) as u64, r);
    assert_eq!(<FP16 as FieldParameters<u16>>::MU, MU);
    kani::cover!(uu >= p);
    kani::cover!(x == 0);
}

// ---------------------------------------------------------------------------------------------
// shipped parameter sets, full width: add / sub / neg / reducedness of mul for every operand pair

macro_rules! fp_addsub_single {
    ($name:ident, $FP:ty, $W:ty, $D:ty) => {
        #[kani::proof]
        pub fn $name() {
            let p = <$FP as FieldParameters<$W>>::PRIME;
            let (x, y): ($W, $W) = (kani::any(), kani::any());
            kani::assume(x < p && y < p);
            let s = x as $D + y as $D;
            let pd = p as $D;
            assert_eq!(<$FP>::add(x, y) as $D, if s >= pd { s - pd } else { s });
            assert_eq!(<$FP>::sub(x, y), if x >= y { x - y } else { p - y + x });
            assert_eq!(<$FP>::neg(x), if x == 0 { 0 } else { p - x });
            assert!(<$FP>::mul(x, y) < p);
            let w: $W = kani::any();
            assert_eq!(<$FP>::modp(w), if w >= p { w - p } else { w });
            kani::cover!(s >= pd);
            kani::cover!(x == 0 && y == p - 1);
        }
    };
}

//@ harness: c09_fp32_addsub
//@ prop: C09
//@ tier: quick
//@ cost: 2
//@ funcs: FP32::{add,sub,neg,modp}, FP32::mul (range only)
//@ bounds: every operand pair < p (full 32-bit width)
//@ asserts: add/sub/neg/modp = integer spec; mul result < p
fp_addsub_single!(c09_fp32_addsub, FP32, u32, u64);

//@ harness: c09_fp64_addsub
//@ prop: C09
//@ tier: quick
//@ cost: 4
//@ funcs: FP64::{add,sub,neg,modp}, FP64::mul (range only)
//@ bounds: every operand pair < p (full 64-bit width)
//@ asserts: add/sub/neg/modp = integer spec; mul result < p
fp_addsub_single!(c09_fp64_addsub, FP64, u64, u128);

//@ harness: c09_fp128_addsub
//@ prop: C09
//@ tier: quick
//@ cost: 18
//@ funcs: FP128::{add,sub,neg,modp}, FieldMulOpsSplitWord::mul (range only)
//@ bounds: every operand pair < p (full 128-bit width)
//@ asserts: add/sub/neg/modp = integer spec (carry-aware); mul result < p
#[kani::proof]
pub fn c09_fp128_addsub() {
    let p = <FP128 as FieldParameters<u128>>::PRIME;
    let (x, y): (u128, u128) = (kani::any(), kani::any());
    kani::assume(x < p && y < p);
    let (lo, carry) = x.overflowing_add(y);
    let want = if carry || lo >= p { lo.wrapping_sub(p) } else { lo };
    assert_eq!(FP128::add(x, y), want);
    assert_eq!(FP128::sub(x, y), if x >= y { x - y } else { p - y + x });
    assert_eq!(FP128::neg(x), if x == 0 { 0 } else { p - x });
    assert!(FP128::mul(x, y) < p);
    let w: u128 = kani::any();
    assert_eq!(FP128::modp(w), if w >= p { w - p } else { w });
    kani::cover!(carry);
    kani::cover!(x == 0 && y == p - 1);
}

// ---------------------------------------------------------------------------------------------
// make_field! glue on the shipped fields: byte decoding accept sets at full width

macro_rules! accept_set {
    ($name:ident, $name_codec:ident, $F:ty, $I:ty, $N:expr, $prime:expr, $mask:expr) => {
        #[kani::proof]
        #[kani::unwind(18)]
        pub fn $name() {
            let b: [u8; $N] = kani::any();
            let mut v: $I = 0;
            let mut i = 0;
            while i < $N {
                v |= (b[i] as $I) << (8 * i);
                i += 1;
            }
            let p: $I = $prime;
            assert_eq!(<$F as FieldElementWithInteger>::modulus(), p);
            // canonical decoding: accepted iff the little-endian integer is below the modulus
            let r = <$F>::try_from(&b[..]);
            assert_eq!(r.is_ok(), v < p);
            // rejection sampling: bits above the modulus length are cleared first
            let rr = <$F>::try_from_random(&b[..]);
            assert_eq!(rr.is_ok(), (v & $mask) < p);
            // short input is refused, never read out of bounds
            let rs = <$F>::try_from(&b[..$N - 1]);
            assert!(rs.is_err());
            kani::cover!(v == p);
            kani::cover!(v == p - 1);
            core::mem::forget(r);
            core::mem::forget(rr);
            core::mem::forget(rs);
        }

        #[kani::proof]
        #[kani::unwind(18)]
        pub fn $name_codec() {
            let b: [u8; $N] = kani::any();
            let mut v: $I = 0;
            let mut i = 0;
            while i < $N {
                v |= (b[i] as $I) << (8 * i);
                i += 1;
            }
            let p: $I = $prime;
            let mut cur = std::io::Cursor::new(&b[..]);
            let d = <$F>::decode(&mut cur);
            assert_eq!(d.is_ok(), v < p);
            if d.is_ok() {
                assert_eq!(cur.position(), $N);
            }
            kani::cover!(v == p);
            kani::cover!(v == p - 1);
            core::mem::forget(d);
        }
    };
}

//@ harness: c09_accept_prio2
//@ prop: C09,C07,C08,C11
//@ tier: quick
//@ cost: 2
//@ funcs: FieldPrio2::{try_from, try_from_random, try_from_bytes}
//@ bounds: every 4-byte string; the 3-byte prefix
//@ asserts: accepted iff LE(bytes) < p (resp. masked value < p); short input refused; no panic
//@ harness: c09_accept_codec_prio2
//@ prop: C09,C07,C08,C11
//@ tier: quick
//@ cost: 2
//@ funcs: <FieldPrio2 as Decode>::decode
//@ bounds: every 4-byte string
//@ asserts: Ok iff LE(bytes) < p; cursor advanced by exactly 4
accept_set!(c09_accept_prio2, c09_accept_codec_prio2, FieldPrio2, u32, 4, 4293918721u32, u32::MAX);

//@ harness: c09_accept_f64
//@ prop: C09,C07,C08,C11
//@ tier: quick
//@ cost: 2
//@ funcs: Field64::{try_from, try_from_random, try_from_bytes}
//@ bounds: every 8-byte string; the 7-byte prefix
//@ asserts: accepted iff LE(bytes) < p; short input refused; no panic
//@ harness: c09_accept_codec_f64
//@ prop: C09,C07,C08,C11
//@ tier: quick
//@ cost: 3
//@ funcs: <Field64 as Decode>::decode
//@ bounds: every 8-byte string
//@ asserts: Ok iff LE(bytes) < p; cursor advanced by exactly 8
accept_set!(c09_accept_f64, c09_accept_codec_f64, Field64, u64, 8, 18446744069414584321u64, u64::MAX);

//@ harness: c09_accept_f128
//@ prop: C09,C07,C08,C11
//@ tier: quick
//@ cost: 4
//@ funcs: Field128::{try_from, try_from_random, try_from_bytes}
//@ bounds: every 16-byte string; the 15-byte prefix
//@ asserts: accepted iff LE(bytes) < p; short input refused; no panic
//@ harness: c09_accept_codec_f128
//@ prop: C09,C07,C08,C11
//@ tier: quick
//@ cost: 3
//@ funcs: <Field128 as Decode>::decode
//@ bounds: every 16-byte string
//@ asserts: Ok iff LE(bytes) < p; cursor advanced by exactly 16
accept_set!(c09_accept_f128, c09_accept_codec_f128, Field128, u128, 16, 340282366920938462946865773367900766209u128, u128::MAX);

//@ harness: c09_accept_f255
//@ prop: C09,C07,C08,C11
//@ tier: quick
//@ cost: 130
//@ funcs: Field255::{try_from, try_from_random, try_from_bytes} (constant-time comparison with the modulus)
//@ bounds: every 32-byte string
//@ asserts: accepted iff LE(bytes) < 2^255 - 19 (top bit cleared first for try_from_random)
#[kani::proof]
#[kani::unwind(34)]
pub fn c09_accept_f255() {
    let b: [u8; 32] = kani::any();
    let limb = |k: usize| -> u64 {
        let mut v = 0u64;
        let mut i = 0;
        while i < 8 {
            v |= (b[8 * k + i] as u64) << (8 * i);
            i += 1;
        }
        v
    };
    let (l0, l1, l2, l3) = (limb(0), limb(1), limb(2), limb(3));
    // p = 2^255 - 19: limbs (2^64-19, 2^64-1, 2^64-1, 2^63-1)
    let below = |top: u64| -> bool {
        if top != 0x7fff_ffff_ffff_ffff {
            top < 0x7fff_ffff_ffff_ffff
        } else if l2 != u64::MAX || l1 != u64::MAX {
            true
        } else {
            l0 < u64::MAX - 18
        }
    };
    let r = Field255::try_from(&b[..]);
    assert_eq!(r.is_ok(), below(l3));
    let rr = Field255::try_from_random(&b[..]);
    assert_eq!(rr.is_ok(), below(l3 & 0x7fff_ffff_ffff_ffff));
    kani::cover!(r.is_ok());
    kani::cover!(l3 == 0x7fff_ffff_ffff_ffff && l2 == u64::MAX && l1 == u64::MAX && l0 == u64::MAX - 18);
    core::mem::forget(r);
    core::mem::forget(rr);
}

// ---------------------------------------------------------------------------------------------
// make_field! glue, all values, on the 8/16-bit expansions of the same macro

//@ harness: c09_field8_glue
//@ prop: C09,C07
//@ tier: quick
//@ cost: 45
//@ funcs: make_field! expansion at Field8: From<int>, Into<int>, try_from bytes, encode/decode, Eq/ct_eq, conditional_select/negate, Add/Sub/Mul/Div/Neg, pow, inv, one/zero/half, root
//@ bounds: field GF(17); every pair of elements, every byte, every integer
//@ asserts: operators = arithmetic mod 17; conversions canonical and mutually inverse; Eq <=> same integer; select/negate as named
#[kani::proof]
#[kani::unwind(10)]
pub fn c09_field8_glue() {
    const P: u32 = 17;
    let (xi, yi): (u8, u8) = (kani::any(), kani::any());
    let x = Field8::from(xi); // any integer is reduced
    let y = Field8::from(yi);
    let (xu, yu) = (xi as u32 % P, yi as u32 % P);
    assert_eq!(u8::from(x) as u32, xu);
    assert_eq!(u8::from(x + y) as u32, (xu + yu) % P);
    assert_eq!(u8::from(x - y) as u32, (xu + P - yu) % P);
    assert_eq!(u8::from(x * y) as u32, (xu * yu) % P);
    assert_eq!(u8::from(-x) as u32, (P - xu) % P);
    if yu != 0 {
        assert_eq!(u8::from((x / y) * y) as u32, xu);
        assert_eq!(u8::from(y.inv() * y), 1);
    }
    // equality / constant-time equality agree with integer equality
    assert_eq!(x == y, xu == yu);
    assert_eq!(bool::from(x.ct_eq(&y)), xu == yu);
    assert_eq!(x == xi, xi as u32 == xu); // PartialEq<int> compares the canonical residue with the raw integer
    // conditional operations
    let c: bool = kani::any();
    let sel = Field8::conditional_select(&x, &y, Choice::from(c as u8));
    assert_eq!(u8::from(sel) as u32, if c { yu } else { xu });
    let mut n = x;
    n.conditional_negate(Choice::from(c as u8));
    assert_eq!(u8::from(n) as u32, if c { (P - xu) % P } else { xu });
    // bytes
    let enc: [u8; 1] = x.into();
    assert_eq!(enc[0] as u32, xu);
    let b: u8 = kani::any();
    let dec = Field8::try_from(&[b][..]);
    assert_eq!(dec.is_ok(), (b as u32) < P);
    if let Ok(d) = dec {
        let back: [u8; 1] = d.into();
        assert_eq!(back[0], b); // accepted strings re-encode to themselves
    }
    // constants
    assert_eq!(u8::from(Field8::zero()), 0);
    assert_eq!(u8::from(Field8::one()), 1);
    assert_eq!(u8::from(Field8::half() + Field8::half()), 1);
    assert_eq!(Field8::modulus(), 17);
    // pow through the public trait
    let e: u8 = kani::any();
    kani::assume(e < 4);
    let pw = u8::from(x.pow(e)) as u32;
    let want = match e {
        0 => 1,
        1 => xu,
        2 => xu * xu % P,
        _ => xu * xu % P * xu % P,
    };
    assert_eq!(pw, want);
    kani::cover!(xi >= 17 && c);
    kani::cover!(xu == 0 && c);
}

//@ harness: c09_field16_glue
//@ prop: C09,C07
//@ tier: quick
//@ cost: 49
//@ funcs: make_field! expansion at Field16 (2-byte encoding): try_from bytes, Into<[u8;2]>, encode/decode, From<int>, Eq
//@ bounds: field GF(61441); every 2-byte string and every u16 integer
//@ asserts: decode accepts iff LE < p; accepted strings re-encode to themselves; From<int> reduces mod p (division-free spec)
#[kani::proof]
#[kani::unwind(4)]
pub fn c09_field16_glue() {
    const P: u16 = 61441;
    let b: [u8; 2] = kani::any();
    let v = u16::from_le_bytes(b);
    let dec = Field16::try_from(&b[..]);
    assert_eq!(dec.is_ok(), v < P);
    if let Ok(d) = dec {
        let back: [u8; 2] = d.into();
        assert_eq!(back, b);
        assert_eq!(u16::from(d), v);
        assert!(d == Field16::from(v));
    }
    let w: u16 = kani::any();
    let f = Field16::from(w);
    assert_eq!(u16::from(f), if w >= P { w - P } else { w });
    kani::cover!(v == P);
    kani::cover!(w >= P);
}

// ---------------------------------------------------------------------------------------------
// shipped fields: results are fully reduced, so Eq / ct_eq / encoding agree; select / negate as named

macro_rules! field_consistency {
    ($name:ident, $F:ty, $I:ty, $N:expr) => {
        #[kani::proof]
        #[kani::unwind(18)]
        pub fn $name() {
            let (a, b): ($I, $I) = (kani::any(), kani::any());
            let x = <$F>::from(a);
            let y = <$F>::from(b);
            let c: bool = kani::any();
            let sel = <$F>::conditional_select(&x, &y, Choice::from(c as u8));
            assert!(if c { sel == y } else { sel == x });
            let mut n = x;
            n.conditional_negate(Choice::from(c as u8));
            assert!(if c { n == -x } else { n == x });
            assert_eq!(x == y, bool::from(x.ct_eq(&y)));
            // zero is the only fixed point of negation and negation is an involution
            assert!(-<$F>::zero() == <$F>::zero());
            assert!(-(-x) == x);
            assert!(x - x == <$F>::zero());
            assert!((x + y) - y == x);
            assert!(x + <$F>::zero() == x);
            kani::cover!(c);
            kani::cover!(!c);
        }
    };
}

//@ harness: c09_consistency_prio2
//@ prop: C09
//@ tier: quick
//@ cost: 4
//@ funcs: FieldPrio2: conditional_select, conditional_negate, Eq, ct_eq, Neg, Add, Sub
//@ bounds: every pair of elements (built from arbitrary u32 integers)
//@ asserts: select/negate as named; Eq = ct_eq; -0 = 0; --x = x; x-x = 0; (x+y)-y = x
field_consistency!(c09_consistency_prio2, FieldPrio2, u32, 4);

//@ harness: c09_consistency_f64
//@ prop: C09
//@ tier: quick
//@ cost: 3
//@ funcs: Field64: conditional_select, conditional_negate, Eq, ct_eq, Neg, Add, Sub
//@ bounds: every pair of elements (built from arbitrary u64 integers)
//@ asserts: select/negate as named; Eq = ct_eq; -0 = 0; --x = x; x-x = 0; (x+y)-y = x
field_consistency!(c09_consistency_f64, Field64, u64, 8);

//@ harness: c09_consistency_f128
//@ prop: C09
//@ tier: quick
//@ cost: 13
//@ funcs: Field128: conditional_select, conditional_negate, Eq, ct_eq, Neg, Add, Sub
//@ bounds: every pair of elements (built from arbitrary u128 integers)
//@ asserts: select/negate as named; Eq = ct_eq; -0 = 0; --x = x; x-x = 0; (x+y)-y = x
field_consistency!(c09_consistency_f128, Field128, u128, 16);

//@ harness: c09_roots_field8
//@ prop: C09,C10
//@ tier: quick
//@ cost: 3
//@ funcs: NttFriendlyFieldElement::{root, generator, generator_order} (make_field! expansion at GF(17))
//@ bounds: every l in 0..=21
//@ asserts: root(l) has order exactly 2^l for l <= NUM_ROOTS, None beyond; generator has order generator_order
#[kani::proof]
#[kani::unwind(20)]
pub fn c09_roots_field8() {
    let l: usize = kani::any();
    kani::assume(l <= 21);
    match Field8::root(l) {
        None => assert!(l > 4),
        Some(r) => {
            assert!(l <= 4);
            // order exactly 2^l: r^(2^l) = 1 and (l > 0 => r^(2^(l-1)) = -1)
            let mut t = r;
            let mut i = 0;
            while i < l {
                if i + 1 == l {
                    assert!(t == -Field8::one());
                }
                t = t * t;
                i += 1;
            }
            assert!(t == Field8::one());
        }
    }
    assert_eq!(Field8::generator_order(), 16);
    assert!(Field8::generator() == Field8::root(4).unwrap());
    kani::cover!(l == 4);
    kani::cover!(l == 5);
}

//@ harness: c09_field8_pow_glue
//@ prop: C09
//@ tier: quick
//@ cost: 30
//@ funcs: FieldElementWithInteger::pow (make_field! glue at GF(17)) vs fp::ops::FieldOps::pow
//@ bounds: every base and every exponent 0..=255 (incl. base 0 with exponents p-1, 2(p-1), ...)
//@ asserts: the public pow passes base and exponent through unchanged: representative = FP8::pow(representative, exponent); 0^e = 0 for e > 0
#[kani::proof]
#[kani::unwind(10)]
pub fn c09_field8_pow_glue() {
    let raw: u8 = kani::any();
    let e: u8 = kani::any();
    let x = match Field8::verif_from_raw(raw) {
        Some(x) => x,
        None => {
            kani::assume(false);
            Field8::zero()
        }
    };
    let got = x.pow(e);
    assert_eq!(got.verif_raw(), FP8::pow(raw, e));
    if raw == 0 && e > 0 {
        assert!(got == Field8::zero());
    }
    kani::cover!(raw == 0 && e == 16);
    kani::cover!(e == 255);
}
