// C01 (narrow slice) — measurement encode -> truncate -> sum -> decode_result is exact, the encoded
// measurement has the declared length, consists of 0/1 elements and satisfies the validity circuit.
// The sharding/verification pipeline (XOF-driven) is outside this family's reach and is not claimed.
use crate::field::{Field64, Field8, FieldElement};
use crate::flp::gadgets::{Mul, ParallelSum};
use crate::flp::types::{Average, Count, Histogram, L1BoundSum, MultihotCountVec, Sum, SumVec};
use crate::flp::{Flp, Type};

type PS = ParallelSum<Field8, Mul>;

fn fmt_stub(_: core::fmt::Arguments<'_>) -> String {
    String::new()
}

fn bit(e: Field8) -> bool {
    e == Field8::zero() || e == Field8::one()
}

//@ harness: c01_count
//@ prop: C01
//@ tier: quick
//@ cost: 30
//@ funcs: Count::{encode_measurement, truncate, decode_result, valid}
//@ bounds: GF(17); every pair of measurements
//@ asserts: encoding is one 0/1 element satisfying the circuit; decode_result(sum of truncations) = number of true measurements
//@ stubs: alloc::fmt::format
#[kani::proof]
#[kani::unwind(4)]
#[kani::stub(alloc::fmt::format, fmt_stub)]
pub fn c01_count() {
    let t = Count::<Field8>::new();
    let (m1, m2): (bool, bool) = (kani::any(), kani::any());
    let e1 = t.encode_measurement(&m1).unwrap();
    let e2 = t.encode_measurement(&m2).unwrap();
    assert_eq!(e1.len(), t.input_len());
    assert!(bit(e1[0]));
    let mut g = t.gadget();
    let v = t.valid(&mut g, &e1, &[], 1).unwrap();
    assert!(v[0] == Field8::zero());
    let o1 = t.truncate(e1).unwrap();
    let o2 = t.truncate(e2).unwrap();
    assert_eq!(o1.len(), t.output_len());
    let agg = [o1[0] + o2[0]];
    let r = t.decode_result(&agg, 2).unwrap();
    assert_eq!(r, m1 as u8 + m2 as u8);
    kani::cover!(m1 && m2);
    core::mem::forget((g, v, o1, o2));
}

macro_rules! sum_exact {
    ($name:ident, $max:expr) => {
        #[kani::proof]
        #[kani::unwind(9)]
        #[kani::stub(alloc::fmt::format, fmt_stub)]
        pub fn $name() {
            let max: u8 = $max;
            let t = Sum::<Field8>::new(max).unwrap();
            let m: u8 = kani::any();
            kani::assume(m <= max); // out-of-range measurements: c16_sum_encode_range
            let enc = t.encode_measurement(&m).unwrap();
            assert_eq!(enc.len(), t.input_len());
            assert_eq!(enc.len(), (8 - max.leading_zeros()) as usize);
            for x in enc.iter() {
                assert!(bit(*x));
            }
            let o = t.truncate(enc).unwrap();
            assert_eq!(o.len(), 1);
            assert_eq!(t.decode_result(&o, 1).unwrap(), m);
            kani::cover!(m == max);
            core::mem::forget(o);
        }
    };
}

//@ harness: c01_sum_exact_max1
//@ prop: C01,C16
//@ tier: quick
//@ cost: 20
//@ funcs: Sum::{new, encode_measurement, truncate, decode_result}, encode_range_checked_int, decode_range_checked_int
//@ bounds: GF(17); Sum(max_measurement 1); every measurement 0..=max
//@ asserts: output length = bits; every element 0/1; decode_result(truncate(encode(m))) = m
//@ stubs: alloc::fmt::format
sum_exact!(c01_sum_exact_max1, 1);

//@ harness: c01_sum_exact_max2
//@ prop: C01,C16
//@ tier: quick
//@ cost: 20
//@ funcs: Sum::{new, encode_measurement, truncate, decode_result}, encode_range_checked_int, decode_range_checked_int
//@ bounds: GF(17); Sum(max_measurement 2); every measurement 0..=max
//@ asserts: output length = bits; every element 0/1; decode_result(truncate(encode(m))) = m
//@ stubs: alloc::fmt::format
sum_exact!(c01_sum_exact_max2, 2);

//@ harness: c01_sum_exact_max3
//@ prop: C01,C16
//@ tier: quick
//@ cost: 20
//@ funcs: Sum::{new, encode_measurement, truncate, decode_result}, encode_range_checked_int, decode_range_checked_int
//@ bounds: GF(17); Sum(max_measurement 3); every measurement 0..=max
//@ asserts: output length = bits; every element 0/1; decode_result(truncate(encode(m))) = m
//@ stubs: alloc::fmt::format
sum_exact!(c01_sum_exact_max3, 3);

//@ harness: c01_sum_exact_max4
//@ prop: C01,C16
//@ tier: quick
//@ cost: 20
//@ funcs: Sum::{new, encode_measurement, truncate, decode_result}, encode_range_checked_int, decode_range_checked_int
//@ bounds: GF(17); Sum(max_measurement 4); every measurement 0..=max
//@ asserts: output length = bits; every element 0/1; decode_result(truncate(encode(m))) = m
//@ stubs: alloc::fmt::format
sum_exact!(c01_sum_exact_max4, 4);

//@ harness: c01_sum_exact_max5
//@ prop: C01,C16
//@ tier: quick
//@ cost: 20
//@ funcs: Sum::{new, encode_measurement, truncate, decode_result}, encode_range_checked_int, decode_range_checked_int
//@ bounds: GF(17); Sum(max_measurement 5); every measurement 0..=max
//@ asserts: output length = bits; every element 0/1; decode_result(truncate(encode(m))) = m
//@ stubs: alloc::fmt::format
sum_exact!(c01_sum_exact_max5, 5);

//@ harness: c01_sum_exact_max7
//@ prop: C01,C16
//@ tier: quick
//@ cost: 20
//@ funcs: Sum::{new, encode_measurement, truncate, decode_result}, encode_range_checked_int, decode_range_checked_int
//@ bounds: GF(17); Sum(max_measurement 7); every measurement 0..=max
//@ asserts: output length = bits; every element 0/1; decode_result(truncate(encode(m))) = m
//@ stubs: alloc::fmt::format
sum_exact!(c01_sum_exact_max7, 7);

//@ harness: c01_sum_exact_max8
//@ prop: C01,C16
//@ tier: quick
//@ cost: 20
//@ funcs: Sum::{new, encode_measurement, truncate, decode_result}, encode_range_checked_int, decode_range_checked_int
//@ bounds: GF(17); Sum(max_measurement 8); every measurement 0..=max
//@ asserts: output length = bits; every element 0/1; decode_result(truncate(encode(m))) = m
//@ stubs: alloc::fmt::format
sum_exact!(c01_sum_exact_max8, 8);

//@ harness: c01_sum_exact_max15
//@ prop: C01,C16
//@ tier: quick
//@ cost: 20
//@ funcs: Sum::{new, encode_measurement, truncate, decode_result}, encode_range_checked_int, decode_range_checked_int
//@ bounds: GF(17); Sum(max_measurement 15); every measurement 0..=max
//@ asserts: output length = bits; every element 0/1; decode_result(truncate(encode(m))) = m
//@ stubs: alloc::fmt::format
sum_exact!(c01_sum_exact_max15, 15);

//@ harness: c01_sum_exact_max16
//@ prop: C01,C16
//@ tier: quick
//@ cost: 20
//@ funcs: Sum::{new, encode_measurement, truncate, decode_result}, encode_range_checked_int, decode_range_checked_int
//@ bounds: GF(17); Sum(max_measurement 16); every measurement 0..=max
//@ asserts: output length = bits; every element 0/1; decode_result(truncate(encode(m))) = m
//@ stubs: alloc::fmt::format
sum_exact!(c01_sum_exact_max16, 16);

//@ harness: c01_sum_two_measurements
//@ prop: C01
//@ tier: quick
//@ cost: 90
//@ funcs: Sum::{encode_measurement, truncate, decode_result, valid}
//@ bounds: GF(17); Sum(max 5) (non-power-of-two last weight); every pair of in-range measurements
//@ asserts: encodings satisfy the validity circuit; decode_result(truncate(e1) + truncate(e2)) = m1 + m2
//@ stubs: alloc::fmt::format
#[kani::proof]
#[kani::unwind(9)]
#[kani::stub(alloc::fmt::format, fmt_stub)]
pub fn c01_sum_two_measurements() {
    let t = Sum::<Field8>::new(5).unwrap();
    let (m1, m2): (u8, u8) = (kani::any(), kani::any());
    kani::assume(m1 <= 5 && m2 <= 5);
    let e1 = t.encode_measurement(&m1).unwrap();
    let e2 = t.encode_measurement(&m2).unwrap();
    let mut g = t.gadget();
    let v = t.valid(&mut g, &e1, &[], 1).unwrap();
    for x in v.iter() {
        assert!(*x == Field8::zero());
    }
    let o1 = t.truncate(e1).unwrap();
    let o2 = t.truncate(e2).unwrap();
    let r = t.decode_result(&[o1[0] + o2[0]], 2).unwrap();
    assert_eq!(r, m1 + m2);
    kani::cover!(m1 == 5 && m2 == 5);
    core::mem::forget((g, v, o1, o2));
}

//@ harness: c01_histogram
//@ prop: C01,C16
//@ tier: quick
//@ cost: 120
//@ funcs: Histogram::{encode_measurement, truncate, decode_result, valid}
//@ bounds: GF(17); Histogram(3 buckets, chunk 2); every pair of bucket indices (usize; out-of-range refused)
//@ asserts: one-hot encoding of the declared length; circuit satisfied for joint randomness (3, 5); bucket counts of two measurements exact
//@ stubs: alloc::fmt::format
#[kani::proof]
#[kani::unwind(6)]
#[kani::stub(alloc::fmt::format, fmt_stub)]
pub fn c01_histogram() {
    let t = Histogram::<Field8, PS>::new(3, 2).unwrap();
    let (m1, m2): (usize, usize) = (kani::any(), kani::any());
    let r1 = t.encode_measurement(&m1);
    assert_eq!(r1.is_ok(), m1 < 3);
    kani::assume(m1 < 3 && m2 < 3);
    let e1 = r1.unwrap();
    let e2 = t.encode_measurement(&m2).unwrap();
    assert_eq!(e1.len(), 3);
    for i in 0..3 {
        assert!(e1[i] == if i == m1 { Field8::one() } else { Field8::zero() });
    }
    let mut g = t.gadget();
    let v = t.valid(&mut g, &e1, &[Field8::from(3u8), Field8::from(5u8)], 1).unwrap();
    assert!(v[0] == Field8::zero() && v[1] == Field8::zero());
    let o1 = t.truncate(e1).unwrap();
    let o2 = t.truncate(e2).unwrap();
    let agg = [o1[0] + o2[0], o1[1] + o2[1], o1[2] + o2[2]];
    let r = t.decode_result(&agg, 2).unwrap();
    for i in 0..3 {
        assert_eq!(r[i], (m1 == i) as u8 + (m2 == i) as u8);
    }
    kani::cover!(m1 == 2 && m2 == 2);
    core::mem::forget((g, v, o1, o2, r));
}

// (SumVec round trip: CBMC runs out of memory (> 9 GB) even for SumVec(2,1,3); its encode side is decided in
// c16_sumvec_encode_len2, its truncate/decode code is shared with L1BoundSum below. Listed as outside the claim.)

//@ harness: c01_multihot
//@ prop: C01
//@ tier: quick
//@ cost: 150
//@ funcs: MultihotCountVec::{encode_measurement, truncate, decode_result, valid}
//@ bounds: GF(17); MultihotCountVec(3 buckets, max_weight 2, chunk 2); every admissible bool vector
//@ asserts: encoding length = buckets + weight bits, 0/1 elements; decode_result(truncate(encode(m))) = m
//@ stubs: alloc::fmt::format
#[kani::proof]
#[kani::unwind(9)]
#[kani::stub(alloc::fmt::format, fmt_stub)]
pub fn c01_multihot() {
    let t = MultihotCountVec::<Field8, PS>::new(3, 2, 2).unwrap();
    let a: [bool; 3] = kani::any();
    let w = |v: &[bool; 3]| v[0] as u8 + v[1] as u8 + v[2] as u8;
    kani::assume(w(&a) <= 2);
    let e1 = t.encode_measurement(&a.to_vec()).unwrap();
    assert_eq!(e1.len(), t.input_len());
    for x in e1.iter() {
        assert!(bit(*x));
    }
    let o1 = t.truncate(e1).unwrap();
    assert_eq!(o1.len(), 3);
    let r = t.decode_result(&o1, 1).unwrap();
    for i in 0..3 {
        assert_eq!(r[i], a[i] as u8);
    }
    kani::cover!(w(&a) == 2);
    core::mem::forget((o1, r));
}

//@ harness: c01_l1boundsum
//@ prop: C01
//@ tier: quick
//@ cost: 90
//@ funcs: L1BoundSum::{encode_measurement, truncate, decode_result}
//@ bounds: GF(17); L1BoundSum(max_value 3, len 1, chunk 2); every admissible measurement
//@ asserts: encoding length = (len+1)*bits, 0/1 elements; decode_result(truncate(encode(m))) = m (the norm is not part of the output)
//@ stubs: alloc::fmt::format
#[kani::proof]
#[kani::unwind(9)]
#[kani::stub(alloc::fmt::format, fmt_stub)]
pub fn c01_l1boundsum() {
    let t = L1BoundSum::<Field8, PS>::new(3, 1, 2).unwrap();
    let a: u8 = kani::any();
    kani::assume(a <= 3);
    let e1 = t.encode_measurement(&vec![a]).unwrap();
    assert_eq!(e1.len(), t.input_len());
    assert_eq!(e1.len(), 4);
    for x in e1.iter() {
        assert!(bit(*x));
    }
    let o1 = t.truncate(e1).unwrap();
    assert_eq!(o1.len(), 1);
    let r = t.decode_result(&o1, 1).unwrap();
    assert_eq!(r[0], a);
    kani::cover!(a == 3);
    core::mem::forget((o1, r));
}

//@ harness: c01_average_small
//@ prop: C01
//@ tier: quick
//@ cost: 60
//@ funcs: Average::{encode_measurement, truncate, decode_result}
//@ bounds: GF(17); Average(max 7); every pair of in-range measurements
//@ asserts: mean of the two measurements, exactly (as f64)
//@ stubs: alloc::fmt::format
#[kani::proof]
#[kani::unwind(9)]
#[kani::stub(alloc::fmt::format, fmt_stub)]
pub fn c01_average_small() {
    let t = Average::<Field8>::new(7).unwrap();
    let (m1, m2): (u8, u8) = (kani::any(), kani::any());
    kani::assume(m1 <= 7 && m2 <= 7);
    let o1 = t.truncate(t.encode_measurement(&m1).unwrap()).unwrap();
    let o2 = t.truncate(t.encode_measurement(&m2).unwrap()).unwrap();
    let r = t.decode_result(&[o1[0] + o2[0]], 2).unwrap();
    assert!(r == (m1 + m2) as f64 / 2.0);
    kani::cover!(m1 == 7 && m2 == 7);
    core::mem::forget((o1, o2));
}

//@ harness: c01_average_large_sums
//@ prop: C01
//@ tier: quick
//@ cost: 30
//@ funcs: Average<Field64>::decode_result (conversion of the aggregate to u64 / f64)
//@ bounds: every aggregate element of the 64-bit field (arbitrary representative < p); num_measurements 1..=1000
//@ asserts: never refused (every field element is a valid aggregate: sums >= 2^32 included)
//@ stubs: alloc::fmt::format
#[kani::proof]
#[kani::unwind(4)]
#[kani::stub(alloc::fmt::format, fmt_stub)]
pub fn c01_average_large_sums() {
    let t = Average::<Field64>::new(1u64 << 40).unwrap();
    let raw: u64 = kani::any();
    let e = match Field64::verif_from_raw(raw) {
        Some(e) => e,
        None => {
            kani::assume(false);
            Field64::zero()
        }
    };
    let n: usize = kani::any();
    kani::assume(n >= 1 && n <= 1000);
    let r = t.decode_result(&[e], n);
    assert!(r.is_ok());
    kani::cover!(true);
    core::mem::forget(r);
}
