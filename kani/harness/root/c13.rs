// C13 — aggregation is independent of order, grouping and batching of shares.
// Elements are arbitrary valid representatives at the full width; the merge path is additions only.
use crate::field::{Field128, Field255, Field64, FieldElement, FieldPrio2};
use crate::vdaf::poplar1::Poplar1FieldVec;
use crate::vdaf::prio2::Prio2;
use crate::vdaf::prio3::Prio3;
use crate::vdaf::{Aggregatable, AggregateShare, Aggregator, OutputShare};

fn fmt_stub(_: core::fmt::Arguments<'_>) -> String {
    String::new()
}

// An arbitrary valid element = an arbitrary internal representative below the modulus (hook
// `verif_from_raw`), i.e. the type's representation invariant and nothing more.
macro_rules! any_elem {
    ($F:ty, $I:ty) => {{
        let raw: $I = kani::any();
        match <$F>::verif_from_raw(raw) {
            Some(e) => e,
            None => {
                kani::assume(false);
                <$F>::zero()
            }
        }
    }};
}

macro_rules! merge_algebra {
    ($name:ident, $F:ty, $I:ty) => {
        #[kani::proof]
        #[kani::unwind(4)]
        #[kani::stub(alloc::fmt::format, fmt_stub)]
        pub fn $name() {
            let v: [$F; 6] = [any_elem!($F, $I), any_elem!($F, $I), any_elem!($F, $I), any_elem!($F, $I), any_elem!($F, $I), any_elem!($F, $I)];
            let e = |i: usize| v[i];
            let a = AggregateShare::from(vec![e(0), e(1)]);
            let b = AggregateShare::from(vec![e(2), e(3)]);
            let c = AggregateShare::from(vec![e(4), e(5)]);
            let zero = AggregateShare::from(vec![<$F>::zero(), <$F>::zero()]);
            // commutativity
            let mut ab = a.clone();
            assert!(ab.merge(&b).is_ok());
            let mut ba = b.clone();
            assert!(ba.merge(&a).is_ok());
            assert!(ab == ba);
            // associativity: (a+b)+c == a+(b+c)
            let mut ab_c = ab.clone();
            assert!(ab_c.merge(&c).is_ok());
            let mut bc = b.clone();
            assert!(bc.merge(&c).is_ok());
            let mut a_bc = a.clone();
            assert!(a_bc.merge(&bc).is_ok());
            assert!(ab_c == a_bc);
            // identity
            let mut az = a.clone();
            assert!(az.merge(&zero).is_ok());
            assert!(az == a);
            let mut za = zero.clone();
            assert!(za.merge(&a).is_ok());
            assert!(za == a);
            // accumulate(output share) = merge(aggregate share made of it); element-wise meaning
            let mut acc = a.clone();
            assert!(acc.accumulate(&OutputShare::from(vec![e(2), e(3)])).is_ok());
            assert!(acc == ab);
            assert!(ab.as_ref()[0] == e(0) + e(2) && ab.as_ref()[1] == e(1) + e(3));
            kani::cover!(true);
            core::mem::forget((a, b, c, zero, ab, ba, ab_c, bc, a_bc, az, za, acc));
        }
    };
}

//@ harness: c13_merge_algebra_f64
//@ prop: C13
//@ tier: quick
//@ cost: 53
//@ funcs: AggregateShare<Field64>::{merge,accumulate}, field::merge_vector, add_assign_vector
//@ bounds: vectors of length 2; every element value (6 symbolic representatives < p)
//@ asserts: commutative, associative, zero identity, accumulate = merge, element-wise sums
//@ stubs: alloc::fmt::format
merge_algebra!(c13_merge_algebra_f64, Field64, u64);

//@ harness: c13_merge_algebra_f128
//@ prop: C13
//@ tier: quick
//@ cost: 153
//@ funcs: AggregateShare<Field128>::{merge,accumulate}, field::merge_vector
//@ bounds: vectors of length 2; every element value (6 symbolic representatives < p)
//@ asserts: commutative, associative, zero identity, accumulate = merge, element-wise sums
//@ stubs: alloc::fmt::format
merge_algebra!(c13_merge_algebra_f128, Field128, u128);

//@ harness: c13_merge_algebra_prio2
//@ prop: C13
//@ tier: quick
//@ cost: 37
//@ funcs: AggregateShare<FieldPrio2>::{merge,accumulate}, field::merge_vector
//@ bounds: vectors of length 2; every element value (6 symbolic representatives < p)
//@ asserts: commutative, associative, zero identity, accumulate = merge, element-wise sums
//@ stubs: alloc::fmt::format
merge_algebra!(c13_merge_algebra_prio2, FieldPrio2, u32);

macro_rules! refusal {
    ($name:ident, $la:expr, $lb:expr) => {
        #[kani::proof]
        #[kani::unwind(5)]
        #[kani::stub(alloc::fmt::format, fmt_stub)]
        pub fn $name() {
            let mut a0: Vec<Field64> = Vec::with_capacity($la);
            for _ in 0..$la {
                a0.push(any_elem!(Field64, u64));
            }
            let mut b0: Vec<Field64> = Vec::with_capacity($lb);
            for _ in 0..$lb {
                b0.push(any_elem!(Field64, u64));
            }
            let mut a = AggregateShare::from(a0.clone());
            let b = AggregateShare::from(b0.clone());
            let r = a.merge(&b);
            assert!(r.is_err());
            // refused and the accumulator is bit-for-bit what it was
            assert_eq!(a.as_ref().len(), $la);
            for i in 0..$la {
                assert!(a.as_ref()[i] == a0[i]);
            }
            let r2 = a.accumulate(&OutputShare::from(b0.clone()));
            assert!(r2.is_err());
            for i in 0..$la {
                assert!(a.as_ref()[i] == a0[i]);
            }
            kani::cover!(true);
            core::mem::forget((a, b, a0, b0, r, r2));
        }
    };
}

//@ harness: c13_refuse_2_vs_1
//@ prop: C13
//@ tier: quick
//@ cost: 6
//@ funcs: AggregateShare<Field64>::{merge,accumulate}, field::merge_vector
//@ bounds: accumulator of length 2, share of length 1; every element value
//@ asserts: Err and the accumulator is unchanged
//@ stubs: alloc::fmt::format
refusal!(c13_refuse_2_vs_1, 2, 1);

//@ harness: c13_refuse_2_vs_3
//@ prop: C13
//@ tier: quick
//@ cost: 3
//@ funcs: AggregateShare<Field64>::{merge,accumulate}, field::merge_vector
//@ bounds: accumulator of length 2, share of length 3; every element value
//@ asserts: Err and the accumulator is unchanged
//@ stubs: alloc::fmt::format
refusal!(c13_refuse_2_vs_3, 2, 3);

//@ harness: c13_refuse_1_vs_2
//@ prop: C13
//@ tier: quick
//@ cost: 7
//@ funcs: AggregateShare<Field64>::{merge,accumulate}, field::merge_vector
//@ bounds: accumulator of length 1, share of length 2; every element value
//@ asserts: Err and the accumulator is unchanged
//@ stubs: alloc::fmt::format
refusal!(c13_refuse_1_vs_2, 1, 2);

//@ harness: c13_prio3_aggregate_partition_a
//@ prop: C13
//@ tier: quick
//@ cost: 64
//@ funcs: Aggregator::aggregate (default method), Prio3::aggregate_init, AggregateShare::{merge,accumulate}
//@ bounds: Prio3Count (output_len 1), three output shares with every element value; partition {0},{2,1}
//@ asserts: single pass over [0,1,2] = merge of the per-batch aggregates; value = sum of the three shares
//@ stubs: alloc::fmt::format
#[kani::proof]
#[kani::unwind(5)]
#[kani::stub(alloc::fmt::format, fmt_stub)]
pub fn c13_prio3_aggregate_partition_a() {
    let vdaf = Prio3::new_count(2).unwrap();
    let v: [Field64; 3] = [any_elem!(Field64, u64), any_elem!(Field64, u64), any_elem!(Field64, u64)];
    let o = |i: usize| OutputShare::from(vec![v[i]]);
    let all = vdaf.aggregate(&(), [o(0), o(1), o(2)]).unwrap();
    let mut p1 = vdaf.aggregate(&(), [o(0)]).unwrap();
    let q1 = vdaf.aggregate(&(), [o(2), o(1)]).unwrap();
    p1.merge(&q1).unwrap();
    assert!(p1 == all);
    assert_eq!(all.as_ref().len(), 1);
    assert!(all.as_ref()[0] == v[0] + v[1] + v[2]);
    kani::cover!(true);
    core::mem::forget((all, p1, q1));
}

//@ harness: c13_prio3_aggregate_partition_b
//@ prop: C13
//@ tier: quick
//@ cost: 35
//@ funcs: Aggregator::aggregate (default method), Prio3::aggregate_init, AggregateShare::merge
//@ bounds: Prio3Count (output_len 1), three output shares with every element value; batches {},{1},{2,0} merged into the empty batch
//@ asserts: the empty batch is the identity and the merge order does not matter
//@ stubs: alloc::fmt::format
#[kani::proof]
#[kani::unwind(5)]
#[kani::stub(alloc::fmt::format, fmt_stub)]
pub fn c13_prio3_aggregate_partition_b() {
    let vdaf = Prio3::new_count(2).unwrap();
    let v: [Field64; 3] = [any_elem!(Field64, u64), any_elem!(Field64, u64), any_elem!(Field64, u64)];
    let o = |i: usize| OutputShare::from(vec![v[i]]);
    let mut p = vdaf.aggregate(&(), []).unwrap();
    let q1 = vdaf.aggregate(&(), [o(1)]).unwrap();
    let q2 = vdaf.aggregate(&(), [o(2), o(0)]).unwrap();
    p.merge(&q2).unwrap();
    p.merge(&q1).unwrap();
    assert_eq!(p.as_ref().len(), 1);
    assert!(p.as_ref()[0] == v[0] + v[1] + v[2]);
    kani::cover!(true);
    core::mem::forget((p, q1, q2));
}

//@ harness: c13_prio3_aggregate_checks_first
//@ prop: C13
//@ tier: quick
//@ cost: 42
//@ funcs: Aggregator::aggregate (default method), Prio3::aggregate_init
//@ bounds: Prio3Count (output_len 1); batches whose first (or only) output share has length 0, 2 or 3
//@ asserts: every share is checked against the empty aggregate: a mismatched share is refused wherever it stands in the batch
//@ stubs: alloc::fmt::format
#[kani::proof]
#[kani::unwind(5)]
#[kani::stub(alloc::fmt::format, fmt_stub)]
pub fn c13_prio3_aggregate_checks_first() {
    let vdaf = Prio3::new_count(2).unwrap();
    let v: [Field64; 3] = [any_elem!(Field64, u64), any_elem!(Field64, u64), any_elem!(Field64, u64)];
    let f = |i: usize| v[i];
    let r1 = vdaf.aggregate(&(), [OutputShare::from(vec![f(0), f(1)])]);
    assert!(r1.is_err());
    let r2 = vdaf.aggregate(&(), [OutputShare::from(vec![f(0), f(1), f(2)]), OutputShare::from(vec![f(0)])]);
    assert!(r2.is_err());
    let r3 = vdaf.aggregate(&(), [OutputShare::from(vec![f(0)]), OutputShare::from(Vec::new())]);
    assert!(r3.is_err());
    let r4 = vdaf.aggregate(&(), [OutputShare::from(Vec::new())]);
    assert!(r4.is_err());
    let ok = vdaf.aggregate(&(), [OutputShare::from(vec![f(0)])]);
    assert!(ok.is_ok());
    kani::cover!(true);
    core::mem::forget((r1, r2, r3, r4, ok));
}

//@ harness: c13_prio2_aggregate
//@ prop: C13
//@ tier: quick
//@ cost: 66
//@ funcs: Aggregator::aggregate for Prio2, Prio2::aggregate_init
//@ bounds: Prio2 with input_len 2; two output shares of every value; a share of length 1 and 3
//@ asserts: aggregate = element-wise sum, order-independent; wrong-length shares refused
//@ stubs: alloc::fmt::format
#[kani::proof]
#[kani::unwind(5)]
#[kani::stub(alloc::fmt::format, fmt_stub)]
pub fn c13_prio2_aggregate() {
    let vdaf = Prio2::new(2).unwrap();
    let v: [FieldPrio2; 4] = [any_elem!(FieldPrio2, u32), any_elem!(FieldPrio2, u32), any_elem!(FieldPrio2, u32), any_elem!(FieldPrio2, u32)];
    let f = |i: usize| v[i];
    let o1 = || OutputShare::from(vec![f(0), f(1)]);
    let o2 = || OutputShare::from(vec![f(2), f(3)]);
    let s12 = vdaf.aggregate(&(), [o1(), o2()]).unwrap();
    let s21 = vdaf.aggregate(&(), [o2(), o1()]).unwrap();
    assert!(s12 == s21);
    assert!(s12.as_ref()[0] == f(0) + f(2) && s12.as_ref()[1] == f(1) + f(3));
    let bad1 = vdaf.aggregate(&(), [OutputShare::from(vec![f(0)])]);
    assert!(bad1.is_err());
    let bad3 = vdaf.aggregate(&(), [o1(), OutputShare::from(vec![f(0), f(1), f(2)])]);
    assert!(bad3.is_err());
    kani::cover!(true);
    core::mem::forget((s12, s21, bad1, bad3));
}

//@ harness: c13_poplar1_fieldvec_inner
//@ prop: C13
//@ tier: quick
//@ cost: 22
//@ funcs: Poplar1FieldVec::{merge,accumulate} (Inner = Field64)
//@ bounds: Inner vectors of length 2 and 1; every element value; Leaf vector of length 1 (concrete)
//@ asserts: commutative; Inner/Leaf mismatch and length mismatch refused with the accumulator unchanged
//@ stubs: alloc::fmt::format
#[kani::proof]
#[kani::unwind(5)]
#[kani::stub(alloc::fmt::format, fmt_stub)]
pub fn c13_poplar1_fieldvec_inner() {
    let v: [Field64; 5] = [any_elem!(Field64, u64), any_elem!(Field64, u64), any_elem!(Field64, u64), any_elem!(Field64, u64), any_elem!(Field64, u64)];
    let f = |i: usize| v[i];
    let a = Poplar1FieldVec::Inner(vec![f(0), f(1)]);
    let b = Poplar1FieldVec::Inner(vec![f(2), f(3)]);
    let mut ab = a.clone();
    assert!(ab.merge(&b).is_ok());
    let mut ba = b.clone();
    assert!(ba.accumulate(&a).is_ok());
    assert!(ab == ba);
    assert!(ab == Poplar1FieldVec::Inner(vec![f(0) + f(2), f(1) + f(3)]));
    // level-kind mismatch
    let leaf = Poplar1FieldVec::Leaf(vec![Field255::one()]);
    let mut a2 = a.clone();
    assert!(a2.merge(&leaf).is_err());
    assert!(a2 == a);
    assert!(a2.accumulate(&leaf).is_err());
    assert!(a2 == a);
    // length mismatch
    let short = Poplar1FieldVec::Inner(vec![f(4)]);
    assert!(a2.merge(&short).is_err());
    assert!(a2 == a);
    assert!(a2.accumulate(&short).is_err());
    assert!(a2 == a);
    kani::cover!(true);
    core::mem::forget((a, b, ab, ba, leaf, a2, short));
}

//@ harness: c13_merge_len3_f64
//@ prop: C13
//@ tier: thorough
//@ cost: 300
//@ timeout: 2400
//@ funcs: AggregateShare<Field64>::merge
//@ bounds: vectors of length 3; every element value (9 symbolic representatives)
//@ asserts: (a+b)+c = a+(b+c) = (c+a)+b element-wise
//@ stubs: alloc::fmt::format
#[kani::proof]
#[kani::unwind(5)]
#[kani::stub(alloc::fmt::format, fmt_stub)]
pub fn c13_merge_len3_f64() {
    let mk = || AggregateShare::from(vec![any_elem!(Field64, u64), any_elem!(Field64, u64), any_elem!(Field64, u64)]);
    let (a, b, c) = (mk(), mk(), mk());
    let mut ab_c = a.clone();
    ab_c.merge(&b).unwrap();
    ab_c.merge(&c).unwrap();
    let mut bc = b.clone();
    bc.merge(&c).unwrap();
    let mut a_bc = a.clone();
    a_bc.merge(&bc).unwrap();
    let mut ca_b = c.clone();
    ca_b.merge(&a).unwrap();
    ca_b.merge(&b).unwrap();
    assert!(ab_c == a_bc && a_bc == ca_b);
    kani::cover!(true);
    core::mem::forget((a, b, c, ab_c, bc, a_bc, ca_b));
}
