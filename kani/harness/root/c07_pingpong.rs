// C07/C08 — PingPongMessage wire format (tag byte, then one or two u32-length-prefixed byte strings).
// Header-partitioned: tag and length prefixes concrete per instance (payload symbolic), plus instances
// with a symbolic inadmissible tag / prefix that must be refused.
use crate::codec::{Decode, Encode};
use crate::topology::ping_pong::PingPongMessage;

fn fmt_stub(_: core::fmt::Arguments<'_>) -> String {
    String::new()
}

fn be32(n: usize) -> [u8; 4] {
    (n as u32).to_be_bytes()
}

macro_rules! pp_roundtrip {
    ($name:ident, $tag:expr, $l1:expr, $l2:expr, $total:expr) => {
        #[kani::proof]
        #[kani::unwind(9)]
        #[kani::stub(alloc::fmt::format, fmt_stub)]
        pub fn $name() {
            // layout: tag | be32(l1) | l1 bytes | [be32(l2) | l2 bytes]   (second field for Continue only)
            let mut b: [u8; $total] = kani::any();
            b[0] = $tag;
            b[1..5].copy_from_slice(&be32($l1));
            if $tag == 1 {
                b[5 + $l1..9 + $l1].copy_from_slice(&be32($l2));
            }
            let honest = if $tag == 1 { 9 + $l1 + $l2 } else { 5 + $l1 };
            let r = PingPongMessage::get_decoded(&b[..]);
            if honest == $total {
                assert!(r.is_ok());
                let v = r.unwrap();
                match &v {
                    PingPongMessage::Initialize { verifier_share } => {
                        assert!($tag == 0 && verifier_share.len() == $l1);
                        for i in 0..$l1 {
                            assert_eq!(verifier_share[i], b[5 + i]);
                        }
                    }
                    PingPongMessage::Continue { verifier_message, verifier_share } => {
                        assert!($tag == 1 && verifier_message.len() == $l1 && verifier_share.len() == $l2);
                        for i in 0..$l1 {
                            assert_eq!(verifier_message[i], b[5 + i]);
                        }
                        for i in 0..$l2 {
                            assert_eq!(verifier_share[i], b[9 + $l1 + i]);
                        }
                    }
                    PingPongMessage::Finish { verifier_message } => {
                        assert!($tag == 2 && verifier_message.len() == $l1);
                        for i in 0..$l1 {
                            assert_eq!(verifier_message[i], b[5 + i]);
                        }
                    }
                }
                assert_eq!(v.encoded_len(), Some($total));
                let mut out = Vec::with_capacity($total);
                let e = v.encode(&mut out);
                assert!(e.is_ok());
                assert_eq!(out.len(), $total);
                for i in 0..$total {
                    assert_eq!(out[i], b[i]);
                }
                core::mem::forget((v, out, e));
            } else {
                // trailing or missing bytes
                assert!(r.is_err());
                core::mem::forget(r);
            }
            kani::cover!(true);
        }
    };
}

//@ harness: c07_pp_initialize
//@ prop: C07,C08
//@ tier: quick
//@ cost: 15
//@ funcs: PingPongMessage::{decode, encode, encoded_len}, decode_u32_items, encode_u32_items
//@ bounds: tag 0, prefix 2, every 2-byte payload
//@ asserts: decodes to Initialize with that payload; re-encodes identically; encoded_len exact
//@ stubs: alloc::fmt::format
pp_roundtrip!(c07_pp_initialize, 0, 2, 0, 7);

//@ harness: c07_pp_continue_dec
//@ prop: C07,C08
//@ tier: quick
//@ cost: 40
//@ funcs: PingPongMessage::{decode, encoded_len}
//@ bounds: tag 1, prefixes 2 and 1, every payload (12 bytes)
//@ asserts: decodes to Continue(message, share) with the fields in wire order; encoded_len = 12
//@ stubs: alloc::fmt::format
#[kani::proof]
#[kani::unwind(6)]
#[kani::stub(alloc::fmt::format, fmt_stub)]
pub fn c07_pp_continue_dec() {
    let p: [u8; 3] = kani::any();
    let b: [u8; 12] = [1, 0, 0, 0, 2, p[0], p[1], 0, 0, 0, 1, p[2]];
    let r = PingPongMessage::get_decoded(&b[..]);
    match &r {
        Ok(PingPongMessage::Continue { verifier_message, verifier_share }) => {
            assert!(verifier_message.len() == 2 && verifier_message[0] == p[0] && verifier_message[1] == p[1]);
            assert!(verifier_share.len() == 1 && verifier_share[0] == p[2]);
        }
        _ => panic!("must decode to Continue"),
    }
    if let Ok(v) = &r {
        assert_eq!(v.encoded_len(), Some(12));
    }
    kani::cover!(true);
    core::mem::forget(r);
}

//@ harness: c07_pp_continue_enc
//@ prop: C07
//@ tier: quick
//@ cost: 40
//@ funcs: PingPongMessage::{encode, encoded_len}, encode_u32_items
//@ bounds: Continue with a 2-byte message and a 1-byte share, every payload
//@ asserts: output = tag 1, be32(2), message, be32(1), share; length = encoded_len = 12
//@ stubs: alloc::fmt::format
#[kani::proof]
#[kani::unwind(14)]
#[kani::stub(alloc::fmt::format, fmt_stub)]
pub fn c07_pp_continue_enc() {
    let p: [u8; 3] = kani::any();
    let v = PingPongMessage::Continue { verifier_message: vec![p[0], p[1]], verifier_share: vec![p[2]] };
    let mut out = Vec::with_capacity(12);
    let e = v.encode(&mut out);
    assert!(e.is_ok());
    assert_eq!(out.len(), 12);
    assert_eq!(v.encoded_len(), Some(12));
    let want: [u8; 12] = [1, 0, 0, 0, 2, p[0], p[1], 0, 0, 0, 1, p[2]];
    let mut k = 0;
    while k < 12 {
        assert_eq!(out[k], want[k]);
        k += 1;
    }
    kani::cover!(true);
    core::mem::forget((v, out, e));
}

//@ harness: c07_pp_finish
//@ prop: C07,C08
//@ tier: quick
//@ cost: 15
//@ funcs: PingPongMessage::{decode, encode, encoded_len}
//@ bounds: tag 2, prefix 0 (empty payload)
//@ asserts: decodes to Finish with an empty message; re-encodes identically; encoded_len exact
//@ stubs: alloc::fmt::format
pp_roundtrip!(c07_pp_finish, 2, 0, 0, 5);

//@ harness: c07_pp_trailing
//@ prop: C07,C08
//@ tier: quick
//@ cost: 15
//@ funcs: PingPongMessage::decode, get_decoded_with_param
//@ bounds: tag 2, prefix 1, one trailing byte
//@ asserts: refused
//@ stubs: alloc::fmt::format
pp_roundtrip!(c07_pp_trailing, 2, 1, 0, 7);

//@ harness: c07_pp_continue_truncated
//@ prop: C07,C08
//@ tier: quick
//@ cost: 20
//@ funcs: PingPongMessage::decode, decode_u32_items
//@ bounds: tag 1, first prefix 1 with its payload, then 0..=3 bytes of the second length prefix (every value)
//@ asserts: refused, no out-of-range slice
//@ stubs: alloc::fmt::format
#[kani::proof]
#[kani::unwind(6)]
#[kani::stub(alloc::fmt::format, fmt_stub)]
pub fn c07_pp_continue_truncated() {
    let p: [u8; 4] = kani::any();
    let b: [u8; 9] = [1, 0, 0, 0, 1, p[0], p[1], p[2], p[3]];
    let r6 = PingPongMessage::get_decoded(&b[..6]);
    let r8 = PingPongMessage::get_decoded(&b[..8]);
    let r9 = PingPongMessage::get_decoded(&b[..9]);
    assert!(r6.is_err() && r8.is_err() && r9.is_err());
    kani::cover!(true);
    core::mem::forget((r6, r8, r9));
}

//@ harness: c08_pp_bad_tag_or_prefix
//@ prop: C08,C07
//@ tier: quick
//@ cost: 25
//@ funcs: PingPongMessage::decode, decode_u32_items, decode_fixlen_items
//@ bounds: every 8-byte string whose tag is >= 3, or whose first length prefix exceeds the 3 remaining bytes
//@ asserts: refused; never panics, never slices out of range
//@ stubs: alloc::fmt::format
#[kani::proof]
#[kani::unwind(6)]
#[kani::stub(alloc::fmt::format, fmt_stub)]
pub fn c08_pp_bad_tag_or_prefix() {
    let b: [u8; 8] = kani::any();
    let prefix = u32::from_be_bytes([b[1], b[2], b[3], b[4]]);
    kani::assume(b[0] >= 3 || prefix > 3);
    let r = PingPongMessage::get_decoded(&b[..]);
    assert!(r.is_err());
    kani::cover!(b[0] == 255);
    kani::cover!(b[0] == 1 && prefix == 4);
    kani::cover!(b[0] == 0 && prefix == u32::MAX);
    core::mem::forget(r);
}

//@ harness: c08_pp_short_inputs
//@ prop: C08
//@ tier: quick
//@ cost: 20
//@ funcs: PingPongMessage::decode
//@ bounds: every byte string of length 0..=4 (no complete length prefix)
//@ asserts: refused
//@ stubs: alloc::fmt::format
#[kani::proof]
#[kani::unwind(6)]
#[kani::stub(alloc::fmt::format, fmt_stub)]
pub fn c08_pp_short_inputs() {
    let b: [u8; 4] = kani::any();
    let r0 = PingPongMessage::get_decoded(&b[..0]);
    let r1 = PingPongMessage::get_decoded(&b[..1]);
    let r3 = PingPongMessage::get_decoded(&b[..3]);
    let r4 = PingPongMessage::get_decoded(&b[..4]);
    assert!(r0.is_err() && r1.is_err() && r3.is_err() && r4.is_err());
    kani::cover!(true);
    core::mem::forget((r0, r1, r3, r4));
}
