// C05 — FLP: validity circuits equal their specification, decide equals the reference predicate,
// declared lengths are exact and wrong-length arguments are refused.
// Vehicle: GF(17) (Field8); circuits, gadgets and Flp::{valid, decide, query, prove} are the crate's
// generic code. Oracles are written in plain u32 arithmetic mod 17.
use crate::field::{Field16, Field8, FieldElement};
use crate::flp::gadgets::{Mul, ParallelSum, ParallelSumGadget};
use crate::flp::types::{Count, Histogram, L1BoundSum, MultihotCountVec, Sum, SumVec};
use crate::flp::{gadget_poly_len, wire_poly_len, Flp, Gadget, Type};

const P: u32 = 17;
type PS = ParallelSum<Field8, Mul>;

fn fmt_stub(_: core::fmt::Arguments<'_>) -> String {
    String::new()
}

fn any_f() -> Field8 {
    let raw: u8 = kani::any();
    match Field8::verif_from_raw(raw) {
        Some(e) => e,
        None => {
            kani::assume(false);
            Field8::zero()
        }
    }
}

fn u(x: Field8) -> u32 {
    x.verif_raw() as u32 // GF(17): Montgomery radix 256 = 1 (mod 17), the representative is the value
}

fn inv17(x: u32) -> u32 {
    let x2 = x * x % P;
    let x4 = x2 * x2 % P;
    let x8 = x4 * x4 % P;
    x8 * x4 % P * x2 % P * x % P
}

// ---------------------------------------------------------------------------------------------
// (a) valid() is the specified circuit

//@ harness: c05_count_valid
//@ prop: C05,C02
//@ tier: quick
//@ cost: 15
//@ funcs: Count::valid, Mul::eval, Flp::valid_call_check
//@ bounds: GF(17); every input element; num_shares 1..=3
//@ asserts: output = [x*x - x]; zero iff x in {0,1}; wrong input / joint-rand lengths refused
//@ stubs: alloc::fmt::format
#[kani::proof]
#[kani::unwind(4)]
#[kani::stub(alloc::fmt::format, fmt_stub)]
pub fn c05_count_valid() {
    let t = Count::<Field8>::new();
    let x = any_f();
    let n: usize = kani::any();
    kani::assume(n >= 1 && n <= 3);
    let mut g = t.gadget();
    let r = t.valid(&mut g, &[x], &[], n);
    match &r {
        Ok(v) => {
            assert_eq!(v.len(), 1);
            let want = (u(x) * u(x) + P - u(x)) % P;
            assert_eq!(u(v[0]), want);
            assert_eq!(want == 0, u(x) <= 1);
        }
        Err(_) => panic!("valid() failed on well-formed arguments"),
    }
    let e1 = t.valid(&mut g, &[x, x], &[], n);
    let e2 = t.valid(&mut g, &[], &[], n);
    let e3 = t.valid(&mut g, &[x], &[x], n);
    assert!(e1.is_err() && e2.is_err() && e3.is_err());
    kani::cover!(u(x) == 1);
    kani::cover!(u(x) == 5);
    core::mem::forget((r, e1, e2, e3, g));
}

//@ harness: c05_sum_valid
//@ prop: C05,C02
//@ tier: quick
//@ cost: 40
//@ funcs: Sum::valid, PolyEval::eval, poly_range_check, poly_eval_monomial
//@ bounds: GF(17); Sum(max 3) (2 bits) and Sum(max 2); every input vector
//@ asserts: output[i] = x_i * (x_i - 1); all-zero iff every x_i in {0,1}
//@ stubs: alloc::fmt::format
#[kani::proof]
#[kani::unwind(6)]
#[kani::stub(alloc::fmt::format, fmt_stub)]
pub fn c05_sum_valid() {
    let max: u8 = if kani::any() { 3 } else { 2 };
    let t = Sum::<Field8>::new(max).unwrap();
    assert_eq!(t.input_len(), 2);
    let x = [any_f(), any_f()];
    let mut g = t.gadget();
    let r = t.valid(&mut g, &x, &[], 1);
    match &r {
        Ok(v) => {
            assert_eq!(v.len(), 2);
            for i in 0..2 {
                assert_eq!(u(v[i]), (u(x[i]) * u(x[i]) + P - u(x[i])) % P);
            }
        }
        Err(_) => panic!("valid() failed on well-formed arguments"),
    }
    kani::cover!(max == 2);
    core::mem::forget((r, g));
}

/// spec of parallel_sum_range_checks: sum over chunks c, positions j of r_c^(j+1) * x * (x - 1/n)
fn range_check_spec(x: &[u32], jr: &[u32], chunk: usize, n: u32) -> u32 {
    let ninv = inv17(n % P);
    let mut acc = 0u32;
    let mut c = 0;
    while c * chunk < x.len() {
        let r = jr[c];
        let mut rp = r;
        let mut j = 0;
        while j < chunk && c * chunk + j < x.len() {
            let xi = x[c * chunk + j];
            acc = (acc + rp * xi % P * ((xi + P - ninv) % P)) % P;
            rp = rp * r % P;
            j += 1;
        }
        c += 1;
    }
    acc
}

//@ harness: c05_histogram_valid_2_1
//@ prop: C05,C02
//@ tier: quick
//@ cost: 60
//@ funcs: Histogram::valid, parallel_sum_range_checks, ParallelSum::eval, Mul::eval
//@ bounds: GF(17); Histogram(length 2, chunk 1): every input (2) and joint randomness (2); num_shares 1..=3
//@ asserts: output = [sum_c sum_j r_c^(j+1) x (x - 1/n), sum x - 1/n]
//@ stubs: alloc::fmt::format
#[kani::proof]
#[kani::unwind(6)]
#[kani::stub(alloc::fmt::format, fmt_stub)]
pub fn c05_histogram_valid_2_1() {
    let t = Histogram::<Field8, PS>::new(2, 1).unwrap();
    let x = [any_f(), any_f()];
    let jr = [any_f(), any_f()];
    let n: usize = kani::any();
    kani::assume(n >= 1 && n <= 3);
    let mut g = t.gadget();
    let r = t.valid(&mut g, &x, &jr, n);
    match &r {
        Ok(v) => {
            assert_eq!(v.len(), 2);
            let xs = [u(x[0]), u(x[1])];
            let js = [u(jr[0]), u(jr[1])];
            assert_eq!(u(v[0]), range_check_spec(&xs, &js, 1, n as u32));
            assert_eq!(u(v[1]), (xs[0] + xs[1] + P - inv17(n as u32)) % P);
        }
        Err(_) => panic!("valid() failed on well-formed arguments"),
    }
    kani::cover!(n == 3);
    core::mem::forget((r, g));
}

//@ harness: c05_histogram_valid_3_2
//@ prop: C05
//@ tier: quick
//@ cost: 200
//@ funcs: Histogram::valid, parallel_sum_range_checks (partial last chunk: zero padding)
//@ bounds: GF(17); Histogram(length 3, chunk 2): every input (3), joint randomness (2) with the second fixed to 5; num_shares 2
//@ asserts: output = specification incl. the padded partial chunk
//@ stubs: alloc::fmt::format
#[kani::proof]
#[kani::unwind(6)]
#[kani::stub(alloc::fmt::format, fmt_stub)]
pub fn c05_histogram_valid_3_2() {
    let t = Histogram::<Field8, PS>::new(3, 2).unwrap();
    let x = [any_f(), any_f(), any_f()];
    let jr = [any_f(), Field8::from(5u8)];
    let mut g = t.gadget();
    let r = t.valid(&mut g, &x, &jr, 2);
    match &r {
        Ok(v) => {
            assert_eq!(v.len(), 2);
            let xs = [u(x[0]), u(x[1]), u(x[2])];
            let js = [u(jr[0]), 5];
            assert_eq!(u(v[0]), range_check_spec(&xs, &js, 2, 2));
            assert_eq!(u(v[1]), (xs[0] + xs[1] + xs[2] + P - inv17(2)) % P);
        }
        Err(_) => panic!("valid() failed on well-formed arguments"),
    }
    kani::cover!(true);
    core::mem::forget((r, g));
}

macro_rules! sumvec_valid {
    ($name:ident, $chunk:expr, $n:expr) => {
        #[kani::proof]
        #[kani::unwind(6)]
        #[kani::stub(alloc::fmt::format, fmt_stub)]
        pub fn $name() {
            let t = SumVec::<Field8, PS>::new(1, 2, $chunk).unwrap();
            let x = [any_f(), any_f()];
            let jr = [any_f(), any_f()];
            let jl = t.joint_rand_len();
            assert_eq!(jl, (2 + $chunk - 1) / $chunk);
            let mut g = t.gadget();
            let r = t.valid(&mut g, &x, &jr[..jl], $n);
            match &r {
                Ok(v) => {
                    assert_eq!(v.len(), 1);
                    let xs = [u(x[0]), u(x[1])];
                    let js = [u(jr[0]), u(jr[1])];
                    assert_eq!(u(v[0]), range_check_spec(&xs, &js, $chunk, $n as u32));
                }
                Err(_) => panic!("valid() failed on well-formed arguments"),
            }
            kani::cover!(true);
            core::mem::forget((r, g));
        }
    };
}

//@ harness: c05_sumvec_valid_chunk2
//@ prop: C05
//@ tier: quick
//@ cost: 60
//@ funcs: SumVec::valid, parallel_sum_range_checks
//@ bounds: GF(17); SumVec(max 1, len 2, chunk 2); every input and joint randomness; num_shares 2
//@ asserts: output = [range check specification]
//@ stubs: alloc::fmt::format
sumvec_valid!(c05_sumvec_valid_chunk2, 2, 2);

//@ harness: c05_sumvec_valid_chunk1
//@ prop: C05
//@ tier: quick
//@ cost: 60
//@ funcs: SumVec::valid, parallel_sum_range_checks
//@ bounds: GF(17); SumVec(max 1, len 2, chunk 1) (two gadget calls); every input and joint randomness; num_shares 3
//@ asserts: output = [range check specification]
//@ stubs: alloc::fmt::format
sumvec_valid!(c05_sumvec_valid_chunk1, 1, 3);

//@ harness: c05_multihot_valid
//@ prop: C05
//@ tier: quick
//@ cost: 200
//@ funcs: MultihotCountVec::valid, parallel_sum_range_checks, decode_range_checked_int
//@ bounds: GF(17); MultihotCountVec(2 buckets, max_weight 2, chunk 2): input of 4 elements (3 symbolic, last fixed), joint randomness (2, second fixed); num_shares 1
//@ asserts: output = [range check, weight - (b0 + last_weight*b1)] with last_weight = max_weight - (2^(bits-1) - 1)
//@ stubs: alloc::fmt::format
#[kani::proof]
#[kani::unwind(7)]
#[kani::stub(alloc::fmt::format, fmt_stub)]
pub fn c05_multihot_valid() {
    let t = MultihotCountVec::<Field8, PS>::new(2, 2, 2).unwrap();
    assert_eq!(t.input_len(), 4); // 2 buckets + 2 weight bits
    let x = [any_f(), any_f(), any_f(), Field8::from(1u8)];
    let jr = [any_f(), Field8::from(3u8)];
    let mut g = t.gadget();
    let r = t.valid(&mut g, &x, &jr, 1);
    match &r {
        Ok(v) => {
            assert_eq!(v.len(), 2);
            let xs = [u(x[0]), u(x[1]), u(x[2]), 1];
            let js = [u(jr[0]), 3];
            assert_eq!(u(v[0]), range_check_spec(&xs, &js, 2, 1));
            // max_weight 2: bits 2, last_weight = 2 - (2^1 - 1) = 1
            let reported = (xs[2] + 1 * xs[3]) % P;
            assert_eq!(u(v[1]), (xs[0] + xs[1] + P - reported) % P);
        }
        Err(_) => panic!("valid() failed on well-formed arguments"),
    }
    kani::cover!(true);
    core::mem::forget((r, g));
}

//@ harness: c05_l1boundsum_valid
//@ prop: C05
//@ tier: quick
//@ cost: 200
//@ funcs: L1BoundSum::valid, parallel_sum_range_checks, decode_range_checked_int
//@ bounds: GF(17); L1BoundSum(max_value 2, len 1, chunk 2): input of 4 elements (3 symbolic), joint randomness (2, second fixed); num_shares 1
//@ asserts: output = [range check, observed - claimed] with the modified-binary weights (1, last_weight = 1)
//@ stubs: alloc::fmt::format
#[kani::proof]
#[kani::unwind(7)]
#[kani::stub(alloc::fmt::format, fmt_stub)]
pub fn c05_l1boundsum_valid() {
    let t = L1BoundSum::<Field8, PS>::new(2, 1, 2).unwrap();
    assert_eq!(t.input_len(), 4); // (1 value + norm) * 2 bits
    let x = [any_f(), any_f(), any_f(), Field8::from(1u8)];
    let jr = [any_f(), Field8::from(3u8)];
    let mut g = t.gadget();
    let r = t.valid(&mut g, &x, &jr, 1);
    match &r {
        Ok(v) => {
            assert_eq!(v.len(), 2);
            let xs = [u(x[0]), u(x[1]), u(x[2]), 1];
            let js = [u(jr[0]), 3];
            assert_eq!(u(v[0]), range_check_spec(&xs, &js, 2, 1));
            let observed = (xs[0] + xs[1]) % P;
            let claimed = (xs[2] + xs[3]) % P;
            assert_eq!(u(v[1]), (observed + P - claimed) % P);
        }
        Err(_) => panic!("valid() failed on well-formed arguments"),
    }
    kani::cover!(true);
    core::mem::forget((r, g));
}

// ---------------------------------------------------------------------------------------------
// (c) decide = reference predicate

//@ harness: c05_count_decide
//@ prop: C05,C02
//@ tier: quick
//@ cost: 15
//@ funcs: Flp::decide (Count), Mul::eval
//@ bounds: GF(17); every verifier message of length 4; lengths 3 and 5
//@ asserts: accept iff v[0] = 0 and v[1]*v[2] = v[3]; wrong lengths are an error
//@ stubs: alloc::fmt::format
#[kani::proof]
#[kani::unwind(6)]
#[kani::stub(alloc::fmt::format, fmt_stub)]
pub fn c05_count_decide() {
    let t = Count::<Field8>::new();
    let v = [any_f(), any_f(), any_f(), any_f(), any_f()];
    let r = t.decide(&v[..4]);
    let want = u(v[0]) == 0 && u(v[1]) * u(v[2]) % P == u(v[3]);
    match &r {
        Ok(b) => assert_eq!(*b, want),
        Err(_) => panic!("decide failed on a well-formed verifier message"),
    }
    let e1 = t.decide(&v[..3]);
    let e2 = t.decide(&v[..]);
    assert!(e1.is_err() && e2.is_err());
    kani::cover!(want);
    kani::cover!(!want);
    core::mem::forget((r, e1, e2));
}

//@ harness: c05_sum_decide
//@ prop: C05,C02
//@ tier: quick
//@ cost: 30
//@ funcs: Flp::decide (Sum), PolyEval::eval
//@ bounds: GF(17); Sum(max 3); every verifier message of length 3
//@ asserts: accept iff v[0] = 0 and v[1]^2 - v[1] = v[2]
//@ stubs: alloc::fmt::format
#[kani::proof]
#[kani::unwind(6)]
#[kani::stub(alloc::fmt::format, fmt_stub)]
pub fn c05_sum_decide() {
    let t = Sum::<Field8>::new(3).unwrap();
    let v = [any_f(), any_f(), any_f()];
    let r = t.decide(&v);
    let w = u(v[1]);
    let want = u(v[0]) == 0 && (w * w + P - w) % P == u(v[2]);
    match &r {
        Ok(b) => assert_eq!(*b, want),
        Err(_) => panic!("decide failed on a well-formed verifier message"),
    }
    kani::cover!(want);
    kani::cover!(!want);
    core::mem::forget(r);
}

//@ harness: c05_histogram_decide
//@ prop: C05,C02
//@ tier: quick
//@ cost: 60
//@ funcs: Flp::decide (Histogram), ParallelSum::eval, Mul::eval
//@ bounds: GF(17); Histogram(3, 2) (ParallelSum of 2 multiplications); every verifier message of length 6
//@ asserts: accept iff v[0] = 0 and v[1]*v[2] + v[3]*v[4] = v[5]
//@ stubs: alloc::fmt::format
#[kani::proof]
#[kani::unwind(8)]
#[kani::stub(alloc::fmt::format, fmt_stub)]
pub fn c05_histogram_decide() {
    let t = Histogram::<Field8, PS>::new(3, 2).unwrap();
    assert_eq!(t.verifier_len(), 6);
    let v = [any_f(), any_f(), any_f(), any_f(), any_f(), any_f()];
    let r = t.decide(&v);
    let want = u(v[0]) == 0 && (u(v[1]) * u(v[2]) + u(v[3]) * u(v[4])) % P == u(v[5]);
    match &r {
        Ok(b) => assert_eq!(*b, want),
        Err(_) => panic!("decide failed on a well-formed verifier message"),
    }
    kani::cover!(want);
    kani::cover!(!want);
    core::mem::forget(r);
}

// ---------------------------------------------------------------------------------------------
// (d) declared lengths = structural formulas; wrong lengths refused

fn structural_lens<T: Flp<Field = Field8>>(t: &T) -> (usize, usize, usize, usize) {
    // proof_len, verifier_len, prove_rand_len, query_rand_len from the gadgets' arity/degree/calls
    let gs = t.gadget();
    let mut proof = 0;
    let mut verifier = 1;
    let mut prove_rand = 0;
    for g in gs.iter() {
        let p = wire_poly_len(g.calls());
        proof += g.arity() + gadget_poly_len(g.degree(), p);
        verifier += g.arity() + 1;
        prove_rand += g.arity();
    }
    let mut query_rand = gs.len();
    if t.eval_output_len() > 1 {
        query_rand += t.eval_output_len();
    }
    core::mem::forget(gs);
    (proof, verifier, prove_rand, query_rand)
}

macro_rules! lens_exact {
    ($name:ident, $mk:expr) => {
        #[kani::proof]
        #[kani::unwind(8)]
        #[kani::stub(alloc::fmt::format, fmt_stub)]
        pub fn $name() {
            if let Ok(t) = $mk {
                let (p, v, pr, qr) = structural_lens(&t);
                assert_eq!(t.proof_len(), p);
                assert_eq!(t.verifier_len(), v);
                assert_eq!(t.prove_rand_len(), pr);
                assert_eq!(t.query_rand_len(), qr);
                assert_eq!(t.num_gadgets(), 1);
                kani::cover!(true);
            }
        }
    };
}

//@ harness: c05_lens_sum
//@ prop: C05
//@ tier: quick
//@ cost: 30
//@ funcs: Sum::{proof_len, verifier_len, prove_rand_len, query_rand_len, gadget}, PolyEval::{arity,degree,calls}
//@ bounds: GF(17); every max_measurement 1..=16 (bits 1..=5)
//@ asserts: declared lengths = sum over gadgets of arity + gadget_poly_len etc.
//@ stubs: alloc::fmt::format
lens_exact!(c05_lens_sum, Sum::<Field8>::new(kani::any()));

//@ harness: c05_lens_histogram
//@ prop: C05
//@ tier: quick
//@ cost: 60
//@ funcs: Histogram::{proof_len, verifier_len, prove_rand_len, query_rand_len, joint_rand_len, gadget}, ParallelSum::{arity,degree,calls}
//@ bounds: every length 1..=12 and chunk_length 1..=12
//@ asserts: declared lengths = structural formulas; joint_rand_len = ceil(length / chunk)
//@ stubs: alloc::fmt::format
#[kani::proof]
#[kani::unwind(8)]
#[kani::stub(alloc::fmt::format, fmt_stub)]
pub fn c05_lens_histogram() {
    let (len, chunk): (usize, usize) = (kani::any(), kani::any());
    kani::assume(len >= 1 && len <= 12 && chunk >= 1 && chunk <= 12);
    let t = Histogram::<Field8, PS>::new(len, chunk).unwrap();
    let (p, v, pr, qr) = structural_lens(&t);
    assert_eq!(t.proof_len(), p);
    assert_eq!(t.verifier_len(), v);
    assert_eq!(t.prove_rand_len(), pr);
    assert_eq!(t.query_rand_len(), qr);
    assert_eq!(t.joint_rand_len(), (len + chunk - 1) / chunk);
    assert_eq!(t.input_len(), len);
    kani::cover!(len == 12 && chunk == 5);
}

//@ harness: c05_lens_sumvec
//@ prop: C05
//@ tier: quick
//@ cost: 60
//@ funcs: SumVec::{proof_len, verifier_len, prove_rand_len, query_rand_len, joint_rand_len, input_len}
//@ bounds: max_measurement 1..=16, len 1..=6, chunk_length 1..=8
//@ asserts: declared lengths = structural formulas; input_len = bits*len; joint_rand_len = ceil(input_len / chunk)
//@ stubs: alloc::fmt::format
#[kani::proof]
#[kani::unwind(8)]
#[kani::stub(alloc::fmt::format, fmt_stub)]
pub fn c05_lens_sumvec() {
    let max: u8 = kani::any();
    let (len, chunk): (usize, usize) = (kani::any(), kani::any());
    kani::assume(max >= 1 && max <= 16 && len >= 1 && len <= 6 && chunk >= 1 && chunk <= 8);
    let t = SumVec::<Field8, PS>::new(max, len, chunk).unwrap();
    let bits = (8 - max.leading_zeros()) as usize;
    let (p, v, pr, qr) = structural_lens(&t);
    assert_eq!(t.proof_len(), p);
    assert_eq!(t.verifier_len(), v);
    assert_eq!(t.prove_rand_len(), pr);
    assert_eq!(t.query_rand_len(), qr);
    assert_eq!(t.input_len(), bits * len);
    assert_eq!(t.joint_rand_len(), (bits * len + chunk - 1) / chunk);
    assert_eq!(t.output_len(), len);
    kani::cover!(max == 16 && len == 6);
}

//@ harness: c05_wrong_lengths_refused
//@ prop: C05,C16
//@ tier: quick
//@ cost: 120
//@ funcs: Flp::{prove, query, decide} length checks (Histogram(2,1) over GF(17))
//@ bounds: every argument one element short or long, query randomness also of length 0 and 1 (shorter than the number of validity outputs); which argument is wrong is symbolic, element values concrete
//@ asserts: prove/query/decide return an error, never panic
//@ stubs: alloc::fmt::format
#[kani::proof]
#[kani::unwind(8)]
#[kani::stub(alloc::fmt::format, fmt_stub)]
pub fn c05_wrong_lengths_refused() {
    let t = Histogram::<Field8, PS>::new(2, 1).unwrap();
    // input 2, prove_rand 2, joint_rand 2, proof 2 + 2*3+1 = 9 .. taken from the instance
    // element values are concrete: only the lengths matter here, and a refused call must not depend on the contents
    let z = [Field8::from(3u8); 12];
    let il = t.input_len();
    let pl = t.proof_len();
    let prl = t.prove_rand_len();
    let jl = t.joint_rand_len();
    let ql = t.query_rand_len();
    let which: u8 = kani::any();
    let r = match which {
        0 => t.prove(&z[..il + 1], &z[..prl], &z[..jl]).map(|_| ()),
        1 => t.prove(&z[..il - 1], &z[..prl], &z[..jl]).map(|_| ()),
        2 => t.prove(&z[..il], &z[..prl + 1], &z[..jl]).map(|_| ()),
        3 => t.prove(&z[..il], &z[..prl], &z[..jl - 1]).map(|_| ()),
        4 => t.query(&z[..il + 1], &z[..pl], &z[..ql], &z[..jl], 2).map(|_| ()),
        5 => t.query(&z[..il], &z[..pl - 1], &z[..ql], &z[..jl], 2).map(|_| ()),
        6 => t.query(&z[..il], &z[..pl], &z[..ql + 1], &z[..jl], 2).map(|_| ()),
        7 => t.query(&z[..il], &z[..pl], &z[..ql], &z[..jl + 1], 2).map(|_| ()),
        8 => t.decide(&z[..t.verifier_len() - 1]).map(|_| ()),
        9 => t.decide(&z[..t.verifier_len() + 1]).map(|_| ()),
        10 => t.query(&z[..il], &z[..pl], &z[..ql - 1], &z[..jl], 2).map(|_| ()),
        11 => t.query(&z[..il], &z[..pl], &z[..1], &z[..jl], 2).map(|_| ()),
        12 => t.query(&z[..il], &z[..pl], &z[..0], &z[..jl], 2).map(|_| ()),
        13 => t.query(&z[..il - 1], &z[..pl], &z[..ql], &z[..jl], 2).map(|_| ()),
        14 => t.query(&z[..il], &z[..pl + 1], &z[..ql], &z[..jl], 2).map(|_| ()),
        15 => t.query(&z[..il], &z[..pl], &z[..ql], &z[..jl - 1], 2).map(|_| ()),
        16 => t.prove(&z[..il], &z[..prl - 1], &z[..jl]).map(|_| ()),
        17 => t.prove(&z[..il], &z[..prl], &z[..jl + 1]).map(|_| ()),
        _ => t.decide(&z[..0]).map(|_| ()),
    };
    assert!(r.is_err());
    kani::cover!(which == 7);
    kani::cover!(which == 0);
    core::mem::forget(r);
}

// query randomness of every wrong length, one straight-line call each (a change that drops the length check makes
// the call run the whole query; kept separate so that the failing path stays small enough to extract and replay)
macro_rules! wrong_query_rand_len {
    ($name:ident, $len:expr) => {
        #[kani::proof]
        #[kani::unwind(8)]
        #[kani::stub(alloc::fmt::format, fmt_stub)]
        pub fn $name() {
            let t = Histogram::<Field8, PS>::new(2, 1).unwrap();
            let z = [Field8::from(3u8); 12];
            assert!($len != t.query_rand_len());
            let r = t.query(&z[..t.input_len()], &z[..t.proof_len()], &z[..$len], &z[..t.joint_rand_len()], 2);
            assert!(r.is_err());
            kani::cover!(true);
            core::mem::forget(r);
        }
    };
}

//@ harness: c05_query_rand_len0
//@ prop: C05,C16
//@ tier: quick
//@ cost: 40
//@ funcs: Flp::query length check of the query randomness (Histogram(2,1) over GF(17), query_rand_len = 3)
//@ bounds: query randomness of length 0 (expected 3), all element values concrete (3), num_shares 2
//@ asserts: query returns an error, never panics and never succeeds
//@ stubs: alloc::fmt::format
wrong_query_rand_len!(c05_query_rand_len0, 0usize);

//@ harness: c05_query_rand_len1
//@ prop: C05,C16
//@ tier: quick
//@ cost: 40
//@ funcs: Flp::query length check of the query randomness (Histogram(2,1) over GF(17), query_rand_len = 3)
//@ bounds: query randomness of length 1 (expected 3), all element values concrete (3), num_shares 2
//@ asserts: query returns an error, never panics and never succeeds
//@ stubs: alloc::fmt::format
wrong_query_rand_len!(c05_query_rand_len1, 1usize);

//@ harness: c05_query_rand_len2
//@ prop: C05,C16
//@ tier: quick
//@ cost: 40
//@ funcs: Flp::query length check of the query randomness (Histogram(2,1) over GF(17), query_rand_len = 3)
//@ bounds: query randomness of length 2 (expected 3), all element values concrete (3), num_shares 2
//@ asserts: query returns an error, never panics and never succeeds
//@ stubs: alloc::fmt::format
wrong_query_rand_len!(c05_query_rand_len2, 2usize);

//@ harness: c05_query_rand_len4
//@ prop: C05,C16
//@ tier: quick
//@ cost: 40
//@ funcs: Flp::query length check of the query randomness (Histogram(2,1) over GF(17), query_rand_len = 3)
//@ bounds: query randomness of length 4 (expected 3), all element values concrete (3), num_shares 2
//@ asserts: query returns an error, never panics and never succeeds
//@ stubs: alloc::fmt::format
wrong_query_rand_len!(c05_query_rand_len4, 4usize);

// ---------------------------------------------------------------------------------------------
// share-count scaling of the circuit constants (every share count, not only the 2..4 the suite uses)

//@ harness: c05_range_check_share_scaling
//@ prop: C05
//@ tier: quick
//@ cost: 130
//@ funcs: SumVec::valid -> flp::types::parallel_sum_range_checks (generic code at F = GF(61441), 16-bit words), FieldOps::inv
//@ bounds: SumVec(max 1, len 1, chunk 1); input x = 3, joint randomness r = 5; num_shares: every value 1..=1000 (incl. 255, 256, 257, 512)
//@ asserts: out * n = r * x * (x*n - 1) (mod p), i.e. the circuit constant is exactly 1/num_shares
//@ stubs: alloc::fmt::format
#[kani::proof]
#[kani::unwind(18)]
#[kani::stub(alloc::fmt::format, fmt_stub)]
pub fn c05_range_check_share_scaling() {
    const Q: u64 = 61441;
    let n: usize = kani::any();
    kani::assume(n >= 1 && n <= 1000);
    let t = SumVec::<Field16, ParallelSum<Field16, Mul>>::new(1, 1, 1).unwrap();
    let mut g = t.gadget();
    let x = Field16::from(3u16);
    let r = Field16::from(5u16);
    let out = t.valid(&mut g, &[x], &[r], n);
    match &out {
        Ok(o) => {
            assert_eq!(o.len(), 1);
            let o = u16::from(o[0]) as u64;
            let nn = n as u64;
            let lhs = o * nn % Q;
            let rhs = 5 * 3 % Q * ((3 * nn + Q - 1) % Q) % Q;
            assert_eq!(lhs, rhs);
        }
        Err(_) => panic!("range check failed for an admissible share count"),
    }
    kani::cover!(n == 256);
    kani::cover!(n == 1000);
    core::mem::forget((out, g));
}

// ---------------------------------------------------------------------------------------------
// query refuses exactly the roots of unity of the wire-polynomial domain

//@ harness: c05_query_root_of_unity
//@ prop: C05
//@ tier: quick
//@ cost: 380
//@ timeout: 1200
//@ funcs: Flp::query (Histogram(2,1) over GF(17): two validity outputs, so the query randomness is [c0, c1, r])
//@ bounds: input, proof, joint randomness and the second compression coefficient concrete; every value of the first compression coefficient c0 and of the gadget query point r (17^2)
//@ asserts: refused iff r^4 = 1 (wire polynomial length 4), independent of the compression coefficients c0, c1; otherwise a verifier message of the declared length
//@ stubs: alloc::fmt::format
#[kani::proof]
#[kani::unwind(10)]
#[kani::stub(alloc::fmt::format, fmt_stub)]
pub fn c05_query_root_of_unity() {
    let t = Histogram::<Field8, PS>::new(2, 1).unwrap();
    let f = |v: u8| Field8::from(v);
    let input = [f(0), f(1)];
    let proof = [f(3), f(7), f(1), f(4), f(1), f(5), f(9), f(2), f(6)];
    assert_eq!(t.proof_len(), 9);
    let jr = [f(2), f(11)];
    let qr = [any_f(), f(3), any_f()];
    let r = t.query(&input, &proof, &qr, &jr, 1);
    let rr = u(qr[2]);
    let r4 = rr * rr % P * rr % P * rr % P;
    assert_eq!(r.is_err(), r4 == 1);
    if let Ok(v) = &r {
        assert_eq!(v.len(), t.verifier_len());
    }
    kani::cover!(r.is_err());
    kani::cover!(r.is_ok() && u(qr[0]) == 1);
    core::mem::forget(r);
}

// ---------------------------------------------------------------------------------------------
// (e) completeness: prove -> query -> decide on a valid input accepts, for all randomness

//@ harness: c05_count_complete
//@ prop: C05,C01
//@ tier: quick
//@ cost: 300
//@ timeout: 1500
//@ funcs: Flp::{prove, query, decide} (Count over GF(17)), ProveShimGadget, QueryShimGadget, Mul::eval_poly, poly_eval_lagrange_batched
//@ bounds: GF(17); measurement in {0,1}; every prover randomness pair; every query randomness that is not a 2nd root of unity
//@ asserts: proof has the declared length, query succeeds with the declared verifier length, decide accepts
//@ stubs: alloc::fmt::format
#[kani::proof]
#[kani::unwind(10)]
#[kani::stub(alloc::fmt::format, fmt_stub)]
pub fn c05_count_complete() {
    let t = Count::<Field8>::new();
    let m: bool = kani::any();
    let input = t.encode_measurement(&m).unwrap();
    let pr = [any_f(), any_f()];
    let qr = [any_f()];
    kani::assume(u(qr[0]) != 1 && u(qr[0]) != 16);
    let proof = t.prove(&input, &pr, &[]).unwrap();
    assert_eq!(proof.len(), t.proof_len());
    let verifier = t.query(&input, &proof, &qr, &[], 1).unwrap();
    assert_eq!(verifier.len(), t.verifier_len());
    assert!(t.decide(&verifier).unwrap());
    kani::cover!(m);
    core::mem::forget((input, proof, verifier));
}

// (the same completeness harness for Sum(max 1) did not finish in 3000 s under load and was removed)

//@ harness: c05_count_sound_fixed_point
//@ prop: C05,C02
//@ tier: thorough
//@ cost: 600
//@ timeout: 3000
//@ funcs: Flp::{prove, query, decide} (Count over GF(17)) on an INVALID input
//@ bounds: GF(17); input 2 (not a bit); every prover randomness pair; query randomness 5
//@ asserts: an honestly generated proof for the invalid input is rejected at this query point for every prover randomness (the circuit output x*x - x = 2 is non-zero)
//@ stubs: alloc::fmt::format
#[kani::proof]
#[kani::unwind(10)]
#[kani::stub(alloc::fmt::format, fmt_stub)]
pub fn c05_count_sound_fixed_point() {
    let t = Count::<Field8>::new();
    let input = [Field8::from(2u8)];
    let pr = [any_f(), any_f()];
    let proof = t.prove(&input, &pr, &[]).unwrap();
    let verifier = t.query(&input, &proof, &[Field8::from(5u8)], &[], 1).unwrap();
    assert!(!t.decide(&verifier).unwrap());
    kani::cover!(true);
    core::mem::forget((proof, verifier));
}
