// C10 — NTT and Lagrange-basis routines equal their textbook definitions.
// Vehicle: Field8 = GF(17) (hook instantiation of the crate's generic make_field!/fp::ops code), the
// routines under test are the crate's generic functions instantiated at F = Field8.
// Oracle: direct evaluation / interpolation written here in plain u32 arithmetic mod 17.
use crate::field::{Field8, FieldElement, NttFriendlyFieldElement};
use crate::ntt::{ntt, ntt_inv, ntt_set_s, NttError};
use crate::polynomial::{
    double_evaluations, extend_values_to_power_of_2, nth_root_powers, poly_eval_lagrange_batched,
    poly_eval_monomial, poly_interpret_eval, poly_mul_lagrange,
};

const P: u32 = 17;
// principal 2^l-th roots of unity of GF(17): 3 generates the multiplicative group (order 16).
const ROOT: [u32; 5] = [1, 16, 13, 9, 3];

fn any_f() -> Field8 {
    let x: u8 = kani::any();
    kani::assume(x < 17);
    Field8::from(x)
}

fn f(x: u32) -> Field8 {
    Field8::from((x % P) as u8)
}

fn u(x: Field8) -> u32 {
    u8::from(x) as u32
}

fn log2n(n: usize) -> usize {
    match n {
        1 => 0,
        2 => 1,
        4 => 2,
        8 => 3,
        _ => 4,
    }
}

/// w^k for the principal n-th root w, k = 0..n-1 (concrete table).
fn powers<const N: usize>(w: u32) -> [u32; N] {
    let mut t = [1u32; N];
    let mut i = 1;
    while i < N {
        t[i] = t[i - 1] * w % P;
        i += 1;
    }
    t
}

/// Horner evaluation of the polynomial with coefficient vector `c` at `x`, in u32 mod 17.
fn horner(c: &[u32], x: u32) -> u32 {
    let mut r = 0u32;
    let mut i = c.len();
    while i > 0 {
        i -= 1;
        r = (r * x + c[i]) % P;
    }
    r
}

fn inv17(x: u32) -> u32 {
    // x^15 mod 17
    let x2 = x * x % P;
    let x4 = x2 * x2 % P;
    let x8 = x4 * x4 % P;
    x8 * x4 % P * x2 % P * x % P
}

/// Value at `x` of the unique polynomial of degree < n through (nodes[i], vals[i]) — naive Lagrange.
fn interp_eval(nodes: &[u32], vals: &[u32], x: u32) -> u32 {
    let n = nodes.len();
    let mut acc = 0u32;
    let mut i = 0;
    while i < n {
        let mut num = 1u32;
        let mut den = 1u32;
        let mut j = 0;
        while j < n {
            if j != i {
                num = num * ((x + P - nodes[j]) % P) % P;
                den = den * ((nodes[i] + P - nodes[j]) % P) % P;
            }
            j += 1;
        }
        acc = (acc + vals[i] * num % P * inv17(den)) % P;
        i += 1;
    }
    acc
}

// ---------------------------------------------------------------------------------------------
// forward transform, all inputs

macro_rules! ntt_forward {
    ($name:ident, $n:expr, $inlen:expr, $outlen:expr, $set_s:expr, $unwind:expr) => {
        #[kani::proof]
        #[kani::unwind($unwind)]
        pub fn $name() {
            const N: usize = $n;
            let mut inp = [Field8::zero(); $inlen];
            for v in inp.iter_mut() {
                *v = any_f();
            }
            let mut out = [f(5); $outlen];
            let r = if $set_s { ntt_set_s(&mut out, &inp, N) } else { ntt(&mut out, &inp, N) };
            assert!(r.is_ok());
            let w = ROOT[log2n(N)];
            let s = if $set_s { ROOT[log2n(N) + 1] } else { 1 };
            let pw: [u32; N] = powers::<N>(w);
            let mut c = [0u32; N];
            for i in 0..N {
                c[i] = if i < $inlen { u(inp[i]) } else { 0 };
            }
            for j in 0..N {
                assert_eq!(u(out[j]), horner(&c, s * pw[j] % P));
            }
            for j in N..$outlen {
                assert_eq!(u(out[j]), 5); // untouched beyond `size`
            }
            kani::cover!(true);
        }
    };
}

//@ harness: c10_ntt_n1
//@ prop: C10
//@ tier: quick
//@ cost: 2
//@ funcs: ntt::ntt, ntt::ntt_internal
//@ bounds: field GF(17); size 1; every input
//@ asserts: out = evaluation at w^j (direct Horner oracle)
ntt_forward!(c10_ntt_n1, 1, 1, 1, false, 4);

//@ harness: c10_ntt_n2
//@ prop: C10
//@ tier: quick
//@ cost: 6
//@ funcs: ntt::ntt, ntt::ntt_internal, ntt::bitrev
//@ bounds: field GF(17); size 2; every input vector (17^2)
//@ asserts: out[j] = sum_i inp[i] w^(ij)
ntt_forward!(c10_ntt_n2, 2, 2, 2, false, 4);

//@ harness: c10_ntt_n4
//@ prop: C10
//@ tier: quick
//@ cost: 26
//@ funcs: ntt::ntt, ntt::ntt_internal, ntt::bitrev
//@ bounds: field GF(17); size 4; every input vector (17^4); output slice longer than size (6)
//@ asserts: out[j] = sum_i inp[i] w^(ij); entries beyond size untouched
ntt_forward!(c10_ntt_n4, 4, 4, 6, false, 7);

//@ harness: c10_ntt_n4_short_input
//@ prop: C10
//@ tier: quick
//@ cost: 10
//@ funcs: ntt::ntt, ntt::ntt_internal
//@ bounds: field GF(17); size 4 with a 3-element input (implicit zero padding); every input
//@ asserts: out[j] = evaluation of the degree-2 polynomial at w^j
ntt_forward!(c10_ntt_n4_short_input, 4, 3, 4, false, 6);

//@ harness: c10_ntt_set_s_n1
//@ prop: C10
//@ tier: quick
//@ cost: 2
//@ funcs: ntt::ntt_set_s
//@ bounds: field GF(17); size 1; every input
//@ asserts: out = evaluation at s*w^j, s the next-order root
ntt_forward!(c10_ntt_set_s_n1, 1, 1, 1, true, 4);

//@ harness: c10_ntt_set_s_n2
//@ prop: C10
//@ tier: quick
//@ cost: 6
//@ funcs: ntt::ntt_set_s, ntt::ntt_internal
//@ bounds: field GF(17); size 2; every input
//@ asserts: out[j] = sum_i inp[i] (s w^j)^i with s = 4th root
ntt_forward!(c10_ntt_set_s_n2, 2, 2, 2, true, 4);

//@ harness: c10_ntt_set_s_n4
//@ prop: C10
//@ tier: quick
//@ cost: 36
//@ funcs: ntt::ntt_set_s, ntt::ntt_internal
//@ bounds: field GF(17); size 4; every input vector (17^4)
//@ asserts: out[j] = sum_i inp[i] (s w^j)^i with s = 8th root
ntt_forward!(c10_ntt_set_s_n4, 4, 4, 4, true, 6);

// sparse inputs at larger sizes: at most two non-zero coefficients at arbitrary positions with
// arbitrary values (a stated bound, not a linearity proof).
macro_rules! ntt_sparse {
    ($name:ident, $n:expr, $set_s:expr, $unwind:expr) => {
        #[kani::proof]
        #[kani::unwind($unwind)]
        pub fn $name() {
            const N: usize = $n;
            let (a, b): (usize, usize) = (kani::any(), kani::any());
            kani::assume(a < N && b < N && a != b);
            let (va, vb) = (any_f(), any_f());
            let mut inp = [Field8::zero(); N];
            inp[a] = va;
            inp[b] = vb;
            let mut out = [Field8::zero(); N];
            let r = if $set_s { ntt_set_s(&mut out, &inp, N) } else { ntt(&mut out, &inp, N) };
            assert!(r.is_ok());
            let w = ROOT[log2n(N)];
            let s = if $set_s { ROOT[log2n(N) + 1] } else { 1 };
            let pw: [u32; N] = powers::<N>(w);
            // s^a, s^b by table over the 2N-th root
            let ps: [u32; N] = powers::<N>(s);
            for j in 0..N {
                let ea = ps[a] * pw[(a * j) % N] % P;
                let eb = ps[b] * pw[(b * j) % N] % P;
                assert_eq!(u(out[j]), (u(va) * ea + u(vb) * eb) % P);
            }
            kani::cover!(true);
        }
    };
}

//@ harness: c10_ntt_sparse_n8
//@ prop: C10
//@ tier: quick
//@ cost: 37
//@ funcs: ntt::ntt, ntt::ntt_internal
//@ bounds: field GF(17); size 8; inputs with <= 2 non-zero coefficients (positions and values symbolic)
//@ asserts: out[j] = a w^(ia j) + b w^(ib j)
ntt_sparse!(c10_ntt_sparse_n8, 8, false, 10);

//@ harness: c10_ntt_sparse_n16
//@ prop: C10
//@ tier: thorough
//@ cost: 300
//@ funcs: ntt::ntt, ntt::ntt_internal
//@ bounds: field GF(17); size 16 (the largest the field supports); inputs with <= 2 non-zero coefficients
//@ asserts: out[j] = a w^(ia j) + b w^(ib j)
ntt_sparse!(c10_ntt_sparse_n16, 16, false, 18);

//@ harness: c10_ntt_set_s_sparse_n8
//@ prop: C10
//@ tier: thorough
//@ cost: 120
//@ funcs: ntt::ntt_set_s, ntt::ntt_internal
//@ bounds: field GF(17); size 8; inputs with <= 2 non-zero coefficients
//@ asserts: out[j] = a (s w^j)^ia + b (s w^j)^ib
ntt_sparse!(c10_ntt_set_s_sparse_n8, 8, true, 10);

// ---------------------------------------------------------------------------------------------
// inverse transform

macro_rules! ntt_inverse {
    ($name:ident, $n:expr, $unwind:expr) => {
        #[kani::proof]
        #[kani::unwind($unwind)]
        pub fn $name() {
            const N: usize = $n;
            let mut vals = [Field8::zero(); N];
            for v in vals.iter_mut() {
                *v = any_f();
            }
            let mut coeffs = [Field8::zero(); N];
            assert!(ntt_inv(&mut coeffs, &vals, N).is_ok());
            // definition: coeffs are those of the polynomial with p(w^j) = vals[j]
            let w = ROOT[log2n(N)];
            let pw: [u32; N] = powers::<N>(w);
            let mut c = [0u32; N];
            for i in 0..N {
                c[i] = u(coeffs[i]);
            }
            for j in 0..N {
                assert_eq!(horner(&c, pw[j]), u(vals[j]));
            }
            // and the forward transform undoes it
            let mut back = [Field8::zero(); N];
            assert!(ntt(&mut back, &coeffs, N).is_ok());
            for j in 0..N {
                assert_eq!(u(back[j]), u(vals[j]));
            }
            kani::cover!(true);
        }
    };
}

//@ harness: c10_ntt_inv_n1
//@ prop: C10
//@ tier: quick
//@ cost: 8
//@ funcs: ntt::ntt_inv, ntt::ntt_inv_finish
//@ bounds: field GF(17); size 1; every input
//@ asserts: inverse interpolates; forward(inverse(v)) = v
ntt_inverse!(c10_ntt_inv_n1, 1, 9);

//@ harness: c10_ntt_inv_n2
//@ prop: C10
//@ tier: quick
//@ cost: 13
//@ funcs: ntt::ntt_inv, ntt::ntt_inv_finish, FieldOps::inv (GF(17))
//@ bounds: field GF(17); size 2; every input
//@ asserts: inverse interpolates; forward(inverse(v)) = v
ntt_inverse!(c10_ntt_inv_n2, 2, 9);

//@ harness: c10_ntt_inv_n4
//@ prop: C10
//@ tier: quick
//@ cost: 67
//@ funcs: ntt::ntt_inv, ntt::ntt_inv_finish, ntt::ntt
//@ bounds: field GF(17); size 4; every input vector (17^4)
//@ asserts: inverse interpolates; forward(inverse(v)) = v
ntt_inverse!(c10_ntt_inv_n4, 4, 9);

//@ harness: c10_ntt_inv_short_input
//@ prop: C10
//@ tier: quick
//@ cost: 60
//@ funcs: ntt::ntt_inv (input shorter than the transform size: implicit zero padding)
//@ bounds: field GF(17); size 4 with a 3-element and a 1-element input; every input
//@ asserts: the result interpolates the zero-padded value vector (scaling by 1/size, not 1/len)
#[kani::proof]
#[kani::unwind(9)]
pub fn c10_ntt_inv_short_input() {
    let vals = [any_f(), any_f(), any_f()];
    let len: usize = if kani::any() { 3 } else { 1 };
    let mut coeffs = [Field8::zero(); 4];
    assert!(ntt_inv(&mut coeffs, &vals[..len], 4).is_ok());
    let pw: [u32; 4] = powers::<4>(ROOT[2]);
    let c = [u(coeffs[0]), u(coeffs[1]), u(coeffs[2]), u(coeffs[3])];
    for j in 0..4 {
        let want = if j < len { u(vals[j]) } else { 0 };
        assert_eq!(horner(&c, pw[j]), want);
    }
    kani::cover!(len == 1);
    kani::cover!(len == 3);
}

// ---------------------------------------------------------------------------------------------
// error reporting (shipped fields, symbolic size)

//@ harness: c10_ntt_errors_large
//@ prop: C10
//@ tier: quick
//@ cost: 13
//@ funcs: ntt::ntt, ntt::ntt_set_s, ntt::ntt_internal (size validation; generic code at F = Field8)
//@ bounds: size: every usize > 4 (the refused region; the header-partitioned twin c10_ntt_errors_small covers 1..=4); 4-element slices; plain and shifted variant
//@ asserts: refused with OutputTooSmall (SizeTooLarge tolerated only above 2^19)
#[kani::proof]
#[kani::unwind(2)]
pub fn c10_ntt_errors_large() {
    let size: usize = kani::any();
    kani::assume(size > 4);
    let set_s: bool = kani::any();
    let inp = [any_f(), any_f(), any_f(), any_f()];
    let mut out = [Field8::zero(); 4];
    let r = if set_s { ntt_set_s(&mut out, &inp, size) } else { ntt(&mut out, &inp, size) };
    match r {
        Err(NttError::OutputTooSmall) => {}
        Err(NttError::SizeTooLarge) => assert!(size > (1 << 19)),
        _ => panic!("size > outp.len() must be refused"),
    }
    kani::cover!(size == usize::MAX);
    kani::cover!(size == 5);
}

macro_rules! ntt_errors_small {
    ($name:ident, $size:expr) => {
        #[kani::proof]
        #[kani::unwind(6)]
        pub fn $name() {
            let set_s: bool = kani::any();
            let inp = [any_f(), any_f(), any_f(), any_f()];
            let mut out = [Field8::zero(); 4];
            let r = if set_s { ntt_set_s(&mut out, &inp, $size) } else { ntt(&mut out, &inp, $size) };
            if ($size as usize).is_power_of_two() {
                assert!(r.is_ok());
            } else {
                assert!(matches!(r, Err(NttError::SizeInvalid)));
            }
            kani::cover!(set_s);
            kani::cover!(!set_s);
        }
    };
}

//@ harness: c10_ntt_errors_size3
//@ prop: C10
//@ tier: quick
//@ cost: 2
//@ funcs: ntt::ntt_internal
//@ bounds: size 3 (not a power of two), 4-element slices, both variants, every input
//@ asserts: SizeInvalid
ntt_errors_small!(c10_ntt_errors_size3, 3);

//@ harness: c10_ntt_errors_size4
//@ prop: C10
//@ tier: quick
//@ cost: 8
//@ funcs: ntt::ntt_internal
//@ bounds: size 4 = output length (boundary), both variants, every input
//@ asserts: accepted
ntt_errors_small!(c10_ntt_errors_size4, 4);

// ---------------------------------------------------------------------------------------------
// Lagrange-basis routines

macro_rules! root_powers {
    ($name:ident, $n:expr, $unwind:expr) => {
        #[kani::proof]
        #[kani::unwind($unwind)]
        pub fn $name() {
            const N: usize = $n;
            let roots = nth_root_powers::<Field8>(N);
            assert_eq!(roots.len(), N);
            let expect: [u32; N] = powers::<N>(ROOT[log2n(N)]);
            // the index is symbolic: the solver checks every position of the table
            let i: usize = kani::any();
            kani::assume(i < N);
            assert_eq!(u(roots[i]), expect[i]);
            kani::cover!(i == N - 1);
            core::mem::forget(roots);
        }
    };
}

//@ harness: c10_root_powers_n1
//@ prop: C10
//@ tier: quick
//@ cost: 2
//@ funcs: polynomial::nth_root_powers
//@ bounds: field GF(17); n = 1
//@ asserts: roots[i] = w_n^i for every i
root_powers!(c10_root_powers_n1, 1, 4);

//@ harness: c10_root_powers_n2
//@ prop: C10
//@ tier: quick
//@ cost: 2
//@ funcs: polynomial::nth_root_powers
//@ bounds: field GF(17); n = 2
//@ asserts: roots[i] = w_n^i for every i
root_powers!(c10_root_powers_n2, 2, 4);

//@ harness: c10_root_powers_n4
//@ prop: C10
//@ tier: quick
//@ cost: 2
//@ funcs: polynomial::nth_root_powers
//@ bounds: field GF(17); n = 4
//@ asserts: roots[i] = w_n^i for every i
root_powers!(c10_root_powers_n4, 4, 6);

//@ harness: c10_root_powers_n8
//@ prop: C10
//@ tier: quick
//@ cost: 4
//@ funcs: polynomial::nth_root_powers
//@ bounds: field GF(17); n = 8
//@ asserts: roots[i] = w_n^i for every i
root_powers!(c10_root_powers_n8, 8, 10);

//@ harness: c10_root_powers_n16
//@ prop: C10
//@ tier: quick
//@ cost: 6
//@ funcs: polynomial::nth_root_powers
//@ bounds: field GF(17); n = 16 (the whole multiplicative group)
//@ asserts: roots[i] = w_n^i for every i
root_powers!(c10_root_powers_n16, 16, 18);

macro_rules! lagrange_eval {
    ($name:ident, $n:expr, $sparse:expr, $unwind:expr) => {
        #[kani::proof]
        #[kani::unwind($unwind)]
        pub fn $name() {
            const N: usize = $n;
            let mut vals = [Field8::zero(); N];
            if $sparse {
                let (a, b): (usize, usize) = (kani::any(), kani::any());
                kani::assume(a < N && b < N);
                vals[a] = any_f();
                vals[b] = any_f();
            } else {
                for v in vals.iter_mut() {
                    *v = any_f();
                }
            }
            let x = any_f(); // includes the interpolation nodes themselves
            let polys = [vals];
            let got = poly_eval_lagrange_batched(&polys, x);
            assert_eq!(got.len(), 1);
            let w = ROOT[log2n(N)];
            let nodes: [u32; N] = powers::<N>(w);
            let mut v = [0u32; N];
            for i in 0..N {
                v[i] = u(vals[i]);
            }
            assert_eq!(u(got[0]), interp_eval(&nodes, &v, u(x)));
            kani::cover!(u(x) == nodes[N - 1]);
            kani::cover!(u(x) == 5);
            core::mem::forget(got);
        }
    };
}

//@ harness: c10_lagrange_eval_n1
//@ prop: C10
//@ tier: quick
//@ cost: 13
//@ funcs: polynomial::poly_eval_lagrange_batched, nth_root_powers, inv_pow2
//@ bounds: field GF(17); 1 value, every value and every evaluation point
//@ asserts: equals naive Lagrange interpolation + evaluation
lagrange_eval!(c10_lagrange_eval_n1, 1, false, 4);

//@ harness: c10_lagrange_eval_n2
//@ prop: C10
//@ tier: quick
//@ cost: 27
//@ funcs: polynomial::poly_eval_lagrange_batched, nth_root_powers, inv_pow2
//@ bounds: field GF(17); 2 values; every value vector and every evaluation point incl. the nodes
//@ asserts: equals naive Lagrange interpolation + evaluation
lagrange_eval!(c10_lagrange_eval_n2, 2, false, 5);

//@ harness: c10_lagrange_eval_n4_sparse
//@ prop: C10
//@ tier: quick
//@ cost: 94
//@ funcs: polynomial::poly_eval_lagrange_batched, nth_root_powers, inv_pow2
//@ bounds: field GF(17); 4 values of which <= 2 non-zero (positions, values symbolic); every evaluation point incl. the nodes
//@ asserts: equals naive Lagrange interpolation + evaluation
lagrange_eval!(c10_lagrange_eval_n4_sparse, 4, true, 7);

//@ harness: c10_lagrange_eval_n4_full
//@ prop: C10
//@ tier: thorough
//@ cost: 1500
//@ timeout: 3000
//@ funcs: polynomial::poly_eval_lagrange_batched
//@ bounds: field GF(17); 4 values, all symbolic (17^5 cases with the point)
//@ asserts: equals naive Lagrange interpolation + evaluation
lagrange_eval!(c10_lagrange_eval_n4_full, 4, false, 7);

//@ harness: c10_lagrange_eval_batched2
//@ prop: C10
//@ tier: quick
//@ cost: 34
//@ funcs: polynomial::poly_eval_lagrange_batched (two polynomials, second shorter than the domain)
//@ bounds: field GF(17); two length-2 polynomials, every value, every point
//@ asserts: each output equals the interpolation of its own polynomial
#[kani::proof]
#[kani::unwind(5)]
pub fn c10_lagrange_eval_batched2() {
    let p0 = [any_f(), any_f()];
    let p1 = [any_f(), any_f()];
    let x = any_f();
    let polys = [p0, p1];
    let got = poly_eval_lagrange_batched(&polys, x);
    assert_eq!(got.len(), 2);
    let nodes = [1u32, 16];
    assert_eq!(u(got[0]), interp_eval(&nodes, &[u(p0[0]), u(p0[1])], u(x)));
    assert_eq!(u(got[1]), interp_eval(&nodes, &[u(p1[0]), u(p1[1])], u(x)));
    kani::cover!(true);
    core::mem::forget(got);
}

macro_rules! extend_values {
    ($name:ident, $desired:expr, $num:expr, $unwind:expr) => {
        #[kani::proof]
        #[kani::unwind($unwind)]
        pub fn $name() {
            const D: usize = $desired;
            const K: usize = $num;
            let mut poly = [f(7); D];
            for i in 0..K {
                poly[i] = any_f();
            }
            let mut before = [0u32; K];
            for i in 0..K {
                before[i] = u(poly[i]);
            }
            extend_values_to_power_of_2(&mut poly, K);
            let w = ROOT[log2n(D)];
            let nodes: [u32; D] = powers::<D>(w);
            for i in 0..K {
                assert_eq!(u(poly[i]), before[i]);
            }
            // the appended values are evaluations of the unique polynomial of degree < K through the first K
            for k in K..D {
                assert_eq!(u(poly[k]), interp_eval(&nodes[..K], &before, nodes[k]));
            }
            kani::cover!(true);
        }
    };
}

//@ harness: c10_extend_2_1
//@ prop: C10
//@ tier: quick
//@ cost: 20
//@ funcs: polynomial::extend_values_to_power_of_2
//@ bounds: field GF(17); desired 2, 1 given value; every value
//@ asserts: given values kept; appended value = interpolation through the given ones
extend_values!(c10_extend_2_1, 2, 1, 9);

//@ harness: c10_extend_4_1
//@ prop: C10
//@ tier: quick
//@ cost: 79
//@ funcs: polynomial::extend_values_to_power_of_2
//@ bounds: field GF(17); desired 4, 1 given value
//@ asserts: given values kept; appended values = interpolation
extend_values!(c10_extend_4_1, 4, 1, 9);

//@ harness: c10_extend_4_2
//@ prop: C10
//@ tier: quick
//@ cost: 88
//@ funcs: polynomial::extend_values_to_power_of_2
//@ bounds: field GF(17); desired 4, 2 given values; every value pair
//@ asserts: given values kept; appended values = interpolation
extend_values!(c10_extend_4_2, 4, 2, 9);

//@ harness: c10_extend_4_3
//@ prop: C10
//@ tier: quick
//@ cost: 80
//@ funcs: polynomial::extend_values_to_power_of_2
//@ bounds: field GF(17); desired 4, 3 given values; every value triple
//@ asserts: given values kept; appended value = interpolation
extend_values!(c10_extend_4_3, 4, 3, 9);

//@ harness: c10_extend_4_4
//@ prop: C10
//@ tier: quick
//@ cost: 12
//@ funcs: polynomial::extend_values_to_power_of_2
//@ bounds: field GF(17); desired 4, 4 given values (nothing to append)
//@ asserts: values unchanged
extend_values!(c10_extend_4_4, 4, 4, 9);

//@ harness: c10_extend_8_5
//@ prop: C10
//@ tier: thorough
//@ cost: 600
//@ funcs: polynomial::extend_values_to_power_of_2
//@ bounds: field GF(17); desired 8, 5 given values of which the first 3 symbolic, the rest concrete
//@ asserts: appended values = interpolation
#[kani::proof]
#[kani::unwind(12)]
pub fn c10_extend_8_5() {
    let mut poly = [f(0); 8];
    poly[0] = any_f();
    poly[1] = any_f();
    poly[2] = any_f();
    poly[3] = f(11);
    poly[4] = f(2);
    let mut before = [0u32; 5];
    for i in 0..5 {
        before[i] = u(poly[i]);
    }
    extend_values_to_power_of_2(&mut poly, 5);
    let nodes: [u32; 8] = powers::<8>(ROOT[3]);
    for k in 5..8 {
        assert_eq!(u(poly[k]), interp_eval(&nodes[..5], &before, nodes[k]));
    }
    kani::cover!(true);
}

macro_rules! double_evals {
    ($name:ident, $n:expr, $sparse:expr, $unwind:expr) => {
        #[kani::proof]
        #[kani::unwind($unwind)]
        pub fn $name() {
            const N: usize = $n;
            const M: usize = 2 * $n;
            let mut ev = [Field8::zero(); N];
            if $sparse {
                let (a, b): (usize, usize) = (kani::any(), kani::any());
                kani::assume(a < N && b < N);
                ev[a] = any_f();
                ev[b] = any_f();
            } else {
                for v in ev.iter_mut() {
                    *v = any_f();
                }
            }
            let mut out = [Field8::zero(); M];
            assert!(double_evaluations(&mut out, &ev).is_ok());
            let nodes_n: [u32; N] = powers::<N>(ROOT[log2n(N)]);
            let nodes_m: [u32; M] = powers::<M>(ROOT[log2n(M)]);
            let mut v = [0u32; N];
            for i in 0..N {
                v[i] = u(ev[i]);
            }
            for k in 0..M {
                assert_eq!(u(out[k]), interp_eval(&nodes_n, &v, nodes_m[k]));
            }
            kani::cover!(true);
        }
    };
}

//@ harness: c10_double_1_2
//@ prop: C10
//@ tier: quick
//@ cost: 13
//@ funcs: polynomial::double_evaluations, ntt_inv, ntt_set_s
//@ bounds: field GF(17); 1 -> 2 evaluations; every value
//@ asserts: output = interpolate the n values, evaluate at the 2n-th roots
double_evals!(c10_double_1_2, 1, false, 9);

//@ harness: c10_double_2_4
//@ prop: C10
//@ tier: quick
//@ cost: 25
//@ funcs: polynomial::double_evaluations, ntt_inv, ntt_set_s
//@ bounds: field GF(17); 2 -> 4 evaluations; every value pair
//@ asserts: output = interpolate, evaluate at the 4th roots
double_evals!(c10_double_2_4, 2, false, 9);

//@ harness: c10_double_4_8_sparse
//@ prop: C10
//@ tier: quick
//@ cost: 101
//@ funcs: polynomial::double_evaluations, ntt_inv, ntt_set_s
//@ bounds: field GF(17); 4 -> 8 evaluations; <= 2 non-zero inputs (positions and values symbolic)
//@ asserts: output = interpolate, evaluate at the 8th roots
double_evals!(c10_double_4_8_sparse, 4, true, 10);

//@ harness: c10_double_4_8_full
//@ prop: C10
//@ tier: thorough
//@ cost: 900
//@ funcs: polynomial::double_evaluations
//@ bounds: field GF(17); 4 -> 8 evaluations; every input vector (17^4)
//@ asserts: output = interpolate, evaluate at the 8th roots
double_evals!(c10_double_4_8_full, 4, false, 10);

//@ harness: c10_double_errors
//@ prop: C10
//@ tier: quick
//@ cost: 2
//@ funcs: polynomial::double_evaluations
//@ bounds: field GF(17); 3 evaluations (not a power of two); 2 evaluations with output of length 3 and 5
//@ asserts: SizeInvalid
#[kani::proof]
#[kani::unwind(9)]
pub fn c10_double_errors() {
    let ev3 = [any_f(), any_f(), any_f()];
    let mut out6 = [Field8::zero(); 6];
    assert!(matches!(double_evaluations(&mut out6, &ev3), Err(NttError::SizeInvalid)));
    let ev2 = [any_f(), any_f()];
    let mut out3 = [Field8::zero(); 3];
    assert!(matches!(double_evaluations(&mut out3, &ev2), Err(NttError::SizeInvalid)));
    let mut out5 = [Field8::zero(); 5];
    assert!(matches!(double_evaluations(&mut out5, &ev2), Err(NttError::SizeInvalid)));
    kani::cover!(true);
}

//@ harness: c10_poly_mul_lagrange_n1
//@ prop: C10
//@ tier: quick
//@ cost: 17
//@ funcs: polynomial::poly_mul_lagrange, double_evaluations
//@ bounds: field GF(17); length-1 operands; every value
//@ asserts: output evaluations = product polynomial evaluated at the 2n-th roots
#[kani::proof]
#[kani::unwind(9)]
pub fn c10_poly_mul_lagrange_n1() {
    let p = [any_f()];
    let q = [any_f()];
    let mut out = [Field8::zero(); 2];
    assert!(poly_mul_lagrange(&mut out, &p, &q).is_ok());
    let prod = u(p[0]) * u(q[0]) % P;
    assert_eq!(u(out[0]), prod);
    assert_eq!(u(out[1]), prod);
    kani::cover!(true);
}

//@ harness: c10_poly_mul_lagrange_n2
//@ prop: C10
//@ tier: quick
//@ cost: 122
//@ funcs: polynomial::poly_mul_lagrange, double_evaluations, get_double_evaluations
//@ bounds: field GF(17); length-2 operands; every pair of value vectors (17^4)
//@ asserts: out[k] = p(w4^k) * q(w4^k) where p, q interpolate the operands on {1,-1}
#[kani::proof]
#[kani::unwind(9)]
pub fn c10_poly_mul_lagrange_n2() {
    let p = [any_f(), any_f()];
    let q = [any_f(), any_f()];
    let mut out = [Field8::zero(); 4];
    assert!(poly_mul_lagrange(&mut out, &p, &q).is_ok());
    let nodes2 = [1u32, 16];
    let nodes4: [u32; 4] = powers::<4>(ROOT[2]);
    for k in 0..4 {
        let pv = interp_eval(&nodes2, &[u(p[0]), u(p[1])], nodes4[k]);
        let qv = interp_eval(&nodes2, &[u(q[0]), u(q[1])], nodes4[k]);
        assert_eq!(u(out[k]), pv * qv % P);
    }
    kani::cover!(true);
}

//@ harness: c10_poly_eval_monomial
//@ prop: C10
//@ tier: quick
//@ cost: 13
//@ funcs: polynomial::poly_eval_monomial
//@ bounds: field GF(17); coefficient vectors of length 0..=4 (length symbolic), every coefficient and point
//@ asserts: equals direct Horner evaluation; empty polynomial evaluates to 0
#[kani::proof]
#[kani::unwind(7)]
pub fn c10_poly_eval_monomial() {
    let c = [any_f(), any_f(), any_f(), any_f()];
    let len: usize = kani::any();
    kani::assume(len <= 4);
    let x = any_f();
    let got = poly_eval_monomial(&c[..len], x);
    let cu = [u(c[0]), u(c[1]), u(c[2]), u(c[3])];
    assert_eq!(u(got), horner(&cu[..len], u(x)));
    kani::cover!(len == 0);
    kani::cover!(len == 4);
}

//@ harness: c10_poly_interpret_eval_n4
//@ prop: C10
//@ tier: quick
//@ cost: 64
//@ funcs: polynomial::poly_interpret_eval, ntt, ntt_inv_finish, poly_eval_monomial
//@ bounds: field GF(17); 4 points of which <= 2 non-zero; every evaluation point
//@ asserts: equals naive interpolation + evaluation
#[kani::proof]
#[kani::unwind(9)]
pub fn c10_poly_interpret_eval_n4() {
    let mut pts = [Field8::zero(); 4];
    let (a, b): (usize, usize) = (kani::any(), kani::any());
    kani::assume(a < 4 && b < 4);
    pts[a] = any_f();
    pts[b] = any_f();
    let x = any_f();
    let mut tmp = [Field8::zero(); 4];
    let got = poly_interpret_eval(&pts, x, &mut tmp);
    let nodes: [u32; 4] = powers::<4>(ROOT[2]);
    let v = [u(pts[0]), u(pts[1]), u(pts[2]), u(pts[3])];
    assert_eq!(u(got), interp_eval(&nodes, &v, u(x)));
    kani::cover!(true);
}
