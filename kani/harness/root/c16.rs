// C16 — fallible public operations reject bad arguments with errors, never panics.
// Every scalar argument is fully symbolic (full range of its type) unless a bound is stated.
use crate::field::{Field128, Field64};
use crate::flp::gadgets::{Mul, ParallelSum};
use crate::flp::types::{Average, Count, Histogram, L1BoundSum, MultihotCountVec, Sum, SumVec};
use crate::flp::{Flp, Type};
use crate::vdaf::prio2::Prio2;
use crate::vdaf::prio3::Prio3;

type PS64 = ParallelSum<Field64, Mul>;
type PS128 = ParallelSum<Field128, Mul>;

fn fmt_stub(_: core::fmt::Arguments<'_>) -> String {
    String::new()
}

macro_rules! ctor_total {
    ($name:ident, $call:expr) => {
        #[kani::proof]
        #[kani::stub(alloc::fmt::format, fmt_stub)]
        pub fn $name() {
            let r = $call;
            kani::cover!(r.is_ok());
            kani::cover!(r.is_err());
            core::mem::forget(r);
        }
    };
}

//@ harness: c16_prio2_new
//@ prop: C16,C19
//@ tier: quick
//@ cost: 2
//@ funcs: vdaf::prio2::Prio2::new
//@ bounds: input_len: every usize
//@ asserts: no arithmetic overflow, no panic; Ok iff 2 * nextpow2(input_len + 1) <= 2^20, i.e. input_len < 2^19
//@ stubs: alloc::fmt::format -> empty string
#[kani::proof]
#[kani::stub(alloc::fmt::format, fmt_stub)]
pub fn c16_prio2_new() {
    let n: usize = kani::any();
    let r = Prio2::new(n);
    // the proof polynomial has 2 * nextpow2(input_len + 1) points and must fit the 2^20-th roots of unity of the 32-bit field
    assert_eq!(r.is_ok(), n < (1usize << 19));
    kani::cover!(r.is_ok());
    kani::cover!(r.is_err());
    core::mem::forget(r);
}

//@ harness: c16_sum64_new
//@ prop: C16
//@ tier: quick
//@ cost: 6
//@ funcs: flp::types::Sum<Field64>::new
//@ bounds: max_measurement: every u64
//@ asserts: total (no panic/overflow/shift overflow)
//@ stubs: alloc::fmt::format
ctor_total!(c16_sum64_new, Sum::<Field64>::new(kani::any()));

//@ harness: c16_sum128_new
//@ prop: C16
//@ tier: quick
//@ cost: 15
//@ funcs: flp::types::Sum<Field128>::new
//@ bounds: max_measurement: every u128
//@ asserts: total
//@ stubs: alloc::fmt::format
ctor_total!(c16_sum128_new, Sum::<Field128>::new(kani::any()));

//@ harness: c16_average128_new
//@ prop: C16
//@ tier: quick
//@ cost: 16
//@ funcs: flp::types::Average<Field128>::new
//@ bounds: max_measurement: every u128
//@ asserts: total
//@ stubs: alloc::fmt::format
ctor_total!(c16_average128_new, Average::<Field128>::new(kani::any()));

//@ harness: c16_histogram128_new
//@ prop: C16
//@ tier: quick
//@ cost: 2
//@ funcs: flp::types::Histogram<Field128,ParallelSum>::new
//@ bounds: length, chunk_length: every usize
//@ asserts: total
//@ stubs: alloc::fmt::format
ctor_total!(c16_histogram128_new, Histogram::<Field128, PS128>::new(kani::any(), kani::any()));

//@ harness: c16_sumvec128_new
//@ prop: C16
//@ tier: quick
//@ cost: 6
//@ funcs: flp::types::SumVec<Field128,ParallelSum>::new
//@ bounds: max_measurement: every u128; len, chunk_length: every usize
//@ asserts: total
//@ stubs: alloc::fmt::format
ctor_total!(c16_sumvec128_new, SumVec::<Field128, PS128>::new(kani::any(), kani::any(), kani::any()));

//@ harness: c16_sumvec64_new
//@ prop: C16
//@ tier: quick
//@ cost: 6
//@ funcs: flp::types::SumVec<Field64,ParallelSum>::new
//@ bounds: max_measurement: every u64; len, chunk_length: every usize
//@ asserts: total
//@ stubs: alloc::fmt::format
ctor_total!(c16_sumvec64_new, SumVec::<Field64, PS64>::new(kani::any(), kani::any(), kani::any()));

//@ harness: c16_multihot128_new
//@ prop: C16
//@ tier: quick
//@ cost: 4
//@ funcs: flp::types::MultihotCountVec<Field128,ParallelSum>::new
//@ bounds: num_buckets, max_weight, chunk_length: every usize
//@ asserts: total
//@ stubs: alloc::fmt::format
ctor_total!(c16_multihot128_new, MultihotCountVec::<Field128, PS128>::new(kani::any(), kani::any(), kani::any()));

//@ harness: c16_multihot64_new
//@ prop: C16
//@ tier: quick
//@ cost: 3
//@ funcs: flp::types::MultihotCountVec<Field64,ParallelSum>::new
//@ bounds: num_buckets, max_weight, chunk_length: every usize
//@ asserts: total
//@ stubs: alloc::fmt::format
ctor_total!(c16_multihot64_new, MultihotCountVec::<Field64, PS64>::new(kani::any(), kani::any(), kani::any()));

//@ harness: c16_l1boundsum128_new
//@ prop: C16
//@ tier: quick
//@ cost: 6
//@ funcs: flp::types::L1BoundSum<Field128,ParallelSum>::new
//@ bounds: max_value: every u128; measurement_len, chunk_length: every usize
//@ asserts: total
//@ stubs: alloc::fmt::format
ctor_total!(c16_l1boundsum128_new, L1BoundSum::<Field128, PS128>::new(kani::any(), kani::any(), kani::any()));

//@ harness: c16_l1boundsum64_new
//@ prop: C16
//@ tier: quick
//@ cost: 5
//@ funcs: flp::types::L1BoundSum<Field64,ParallelSum>::new
//@ bounds: max_value: every u64; measurement_len, chunk_length: every usize
//@ asserts: total
//@ stubs: alloc::fmt::format
ctor_total!(c16_l1boundsum64_new, L1BoundSum::<Field64, PS64>::new(kani::any(), kani::any(), kani::any()));

//@ harness: c16_prio3_new_count
//@ prop: C16
//@ tier: quick
//@ cost: 2
//@ funcs: vdaf::prio3::Prio3::new_count, check_num_aggregators
//@ bounds: num_aggregators: every u8
//@ asserts: total; Err if num_aggregators is 0 or > 254; Ok for 2..=254
//@ stubs: alloc::fmt::format
#[kani::proof]
#[kani::stub(alloc::fmt::format, fmt_stub)]
pub fn c16_prio3_new_count() {
    let n: u8 = kani::any();
    let r = Prio3::new_count(n);
    // n = 1 is accepted by the library ("at least one aggregator"); the property only demands that
    // 0 and out-of-range counts are refused and that 2..=254 are accepted.
    if n == 0 || n > 254 {
        assert!(r.is_err());
    }
    if (2..=254).contains(&n) {
        assert!(r.is_ok());
    }
    kani::cover!(r.is_ok());
    kani::cover!(r.is_err());
    core::mem::forget(r);
}

//@ harness: c16_prio3_new_generic
//@ prop: C16
//@ tier: quick
//@ cost: 3
//@ funcs: vdaf::prio3::Prio3::new
//@ bounds: num_aggregators, num_proofs: every u8; algorithm_id: every u32
//@ asserts: total; Err if num_aggregators is 0 or > 254 or num_proofs = 0; Ok for 2..=254 with num_proofs >= 1
//@ stubs: alloc::fmt::format
#[kani::proof]
#[kani::stub(alloc::fmt::format, fmt_stub)]
pub fn c16_prio3_new_generic() {
    let n: u8 = kani::any();
    let p: u8 = kani::any();
    let r = Prio3::<Count<Field64>, crate::vdaf::xof::XofTurboShake128, 32>::new(n, p, kani::any(), Count::new());
    if n == 0 || n > 254 || p == 0 {
        assert!(r.is_err());
    }
    if (2..=254).contains(&n) && p >= 1 {
        assert!(r.is_ok());
    }
    kani::cover!(r.is_ok());
    kani::cover!(r.is_err());
    core::mem::forget(r);
}

//@ harness: c16_prio3_new_sum
//@ prop: C16
//@ tier: quick
//@ cost: 11
//@ funcs: vdaf::prio3::Prio3::new_sum
//@ bounds: num_aggregators: every u8; max_measurement: every u64
//@ asserts: total
//@ stubs: alloc::fmt::format
ctor_total!(c16_prio3_new_sum, Prio3::new_sum(kani::any(), kani::any()));

//@ harness: c16_prio3_new_average
//@ prop: C16
//@ tier: quick
//@ cost: 25
//@ funcs: vdaf::prio3::Prio3::new_average
//@ bounds: num_aggregators: every u8; max_measurement: every u128
//@ asserts: total
//@ stubs: alloc::fmt::format
ctor_total!(c16_prio3_new_average, Prio3::new_average(kani::any(), kani::any()));

//@ harness: c16_prio3_new_sum_vec
//@ prop: C16
//@ tier: quick
//@ cost: 10
//@ funcs: vdaf::prio3::Prio3::new_sum_vec
//@ bounds: num_aggregators: every u8; max_measurement: every u128; len, chunk_length: every usize
//@ asserts: total
//@ stubs: alloc::fmt::format
ctor_total!(c16_prio3_new_sum_vec, Prio3::new_sum_vec(kani::any(), kani::any(), kani::any(), kani::any()));

//@ harness: c16_prio3_new_histogram
//@ prop: C16
//@ tier: quick
//@ cost: 5
//@ funcs: vdaf::prio3::Prio3::new_histogram
//@ bounds: num_aggregators: every u8; length, chunk_length: every usize
//@ asserts: total
//@ stubs: alloc::fmt::format
ctor_total!(c16_prio3_new_histogram, Prio3::new_histogram(kani::any(), kani::any(), kani::any()));

//@ harness: c16_prio3_new_multihot
//@ prop: C16
//@ tier: quick
//@ cost: 8
//@ funcs: vdaf::prio3::Prio3::new_multihot_count_vec
//@ bounds: num_aggregators: every u8; num_buckets, max_weight, chunk_length: every usize
//@ asserts: total
//@ stubs: alloc::fmt::format
ctor_total!(c16_prio3_new_multihot, Prio3::new_multihot_count_vec(kani::any(), kani::any(), kani::any(), kani::any()));

//@ harness: c16_prio3_new_l1boundsum
//@ prop: C16
//@ tier: quick
//@ cost: 11
//@ funcs: vdaf::prio3::Prio3::new_l1_bound_sum
//@ bounds: num_aggregators: every u8; max_value: every u128; len, chunk_length: every usize
//@ asserts: total
//@ stubs: alloc::fmt::format
ctor_total!(c16_prio3_new_l1boundsum, Prio3::new_l1_bound_sum(kani::any(), kani::any(), kani::any(), kani::any()));

// ---- instances built from in-budget arguments are usable: the length accessors do not overflow ----

const BUDGET: usize = 1 << 24;

macro_rules! lens_total {
    ($t:expr) => {{
        let t = $t;
        let _ = t.input_len();
        let _ = t.proof_len();
        let _ = t.verifier_len();
        let _ = t.joint_rand_len();
        let _ = t.prove_rand_len();
        let _ = t.eval_output_len();
        let _ = t.output_len();
        kani::cover!(true);
    }};
}

//@ harness: c16_lens_sumvec
//@ prop: C16
//@ tier: quick
//@ cost: 15
//@ funcs: SumVec::new; Flp::{input_len,proof_len,verifier_len,joint_rand_len,prove_rand_len,eval_output_len}; Type::output_len
//@ bounds: max_measurement: every u128; len, chunk_length <= 2^24 (memory budget of the property's quantifier)
//@ asserts: every instance the constructor accepts has overflow-free length accessors
//@ stubs: alloc::fmt::format
#[kani::proof]
#[kani::stub(alloc::fmt::format, fmt_stub)]
pub fn c16_lens_sumvec() {
    let (len, chunk): (usize, usize) = (kani::any(), kani::any());
    kani::assume(len <= BUDGET && chunk <= BUDGET);
    if let Ok(t) = SumVec::<Field128, PS128>::new(kani::any(), len, chunk) {
        lens_total!(t);
    }
}

//@ harness: c16_lens_histogram
//@ prop: C16
//@ tier: quick
//@ cost: 5
//@ funcs: Histogram::new; Flp length accessors
//@ bounds: length, chunk_length <= 2^24
//@ asserts: every accepted instance has overflow-free length accessors
//@ stubs: alloc::fmt::format
#[kani::proof]
#[kani::stub(alloc::fmt::format, fmt_stub)]
pub fn c16_lens_histogram() {
    let (len, chunk): (usize, usize) = (kani::any(), kani::any());
    kani::assume(len <= BUDGET && chunk <= BUDGET);
    if let Ok(t) = Histogram::<Field128, PS128>::new(len, chunk) {
        lens_total!(t);
    }
}

//@ harness: c16_lens_multihot
//@ prop: C16
//@ tier: quick
//@ cost: 12
//@ funcs: MultihotCountVec::new; Flp length accessors
//@ bounds: num_buckets, chunk_length <= 2^24; max_weight: every usize
//@ asserts: every accepted instance has overflow-free length accessors
//@ stubs: alloc::fmt::format
#[kani::proof]
#[kani::stub(alloc::fmt::format, fmt_stub)]
pub fn c16_lens_multihot() {
    let (len, chunk): (usize, usize) = (kani::any(), kani::any());
    kani::assume(len <= BUDGET && chunk <= BUDGET);
    if let Ok(t) = MultihotCountVec::<Field128, PS128>::new(len, kani::any(), chunk) {
        lens_total!(t);
    }
}

//@ harness: c16_lens_l1boundsum
//@ prop: C16
//@ tier: quick
//@ cost: 14
//@ funcs: L1BoundSum::new; Flp length accessors
//@ bounds: measurement_len, chunk_length <= 2^24; max_value: every u128
//@ asserts: every accepted instance has overflow-free length accessors
//@ stubs: alloc::fmt::format
#[kani::proof]
#[kani::stub(alloc::fmt::format, fmt_stub)]
pub fn c16_lens_l1boundsum() {
    let (len, chunk): (usize, usize) = (kani::any(), kani::any());
    kani::assume(len <= BUDGET && chunk <= BUDGET);
    if let Ok(t) = L1BoundSum::<Field128, PS128>::new(kani::any(), len, chunk) {
        lens_total!(t);
    }
}

//@ harness: c16_lens_sum
//@ prop: C16
//@ tier: quick
//@ cost: 26
//@ funcs: Sum::new; Flp length accessors
//@ bounds: max_measurement: every u128
//@ asserts: every accepted instance has overflow-free length accessors
//@ stubs: alloc::fmt::format
#[kani::proof]
#[kani::stub(alloc::fmt::format, fmt_stub)]
pub fn c16_lens_sum() {
    if let Ok(t) = Sum::<Field128>::new(kani::any()) {
        lens_total!(t);
    }
}

// ---- measurement encoders: out-of-range measurements are refused with an error ----

//@ harness: c16_histogram_encode_oob
//@ prop: C16
//@ tier: quick
//@ cost: 2
//@ funcs: Histogram::encode_measurement
//@ bounds: Histogram<Field64>(length 3, chunk 2); measurement: every usize
//@ asserts: returns Ok iff measurement < length; never panics (slice index)
//@ stubs: alloc::fmt::format
#[kani::proof]
#[kani::unwind(5)]
#[kani::stub(alloc::fmt::format, fmt_stub)]
pub fn c16_histogram_encode_oob() {
    let h = Histogram::<Field64, PS64>::new(3, 2).unwrap();
    let m: usize = kani::any();
    let r = h.encode_measurement(&m);
    assert_eq!(r.is_ok(), m < 3);
    kani::cover!(r.is_ok());
    kani::cover!(r.is_err());
    core::mem::forget(r);
}

//@ harness: c16_sum_encode_range
//@ prop: C16
//@ tier: quick
//@ cost: 55
//@ funcs: Sum::encode_measurement, encode_range_checked_int, FieldElementWithInteger::encode_as_bitvector
//@ bounds: Sum<Field64>(max in {1,2,3,5,255,256}); measurement: every u64
//@ asserts: Ok iff measurement <= max_measurement; encoded length = bits
//@ stubs: alloc::fmt::format
#[kani::proof]
#[kani::unwind(11)]
#[kani::stub(alloc::fmt::format, fmt_stub)]
pub fn c16_sum_encode_range() {
    let which: u8 = kani::any();
    let max: u64 = match which {
        0 => 1,
        1 => 2,
        2 => 3,
        3 => 5,
        4 => 255,
        _ => 256,
    };
    let s = Sum::<Field64>::new(max).unwrap();
    let m: u64 = kani::any();
    let r = s.encode_measurement(&m);
    assert_eq!(r.is_ok(), m <= max);
    if let Ok(v) = &r {
        assert_eq!(v.len(), s.input_len());
    }
    kani::cover!(r.is_ok());
    kani::cover!(r.is_err());
    core::mem::forget(r);
}

// Measurement vectors have a *concrete* length per harness instance (a Vec whose length is symbolic
// costs CBMC minutes); entries are fully symbolic.
macro_rules! sumvec_encode {
    ($name:ident, $n:expr) => {
        #[kani::proof]
        #[kani::unwind(9)]
        #[kani::stub(alloc::fmt::format, fmt_stub)]
        pub fn $name() {
            let t = SumVec::<Field64, PS64>::new(2, 2, 2).unwrap();
            let vals: [u64; $n] = kani::any();
            let m: Vec<u64> = vals.to_vec();
            let r = t.encode_measurement(&m);
            assert_eq!(r.is_ok(), $n == 2 && vals.iter().all(|v| *v <= 2));
            if let Ok(v) = &r {
                assert_eq!(v.len(), t.input_len());
            }
            kani::cover!(r.is_err());
            kani::cover!($n != 2 || r.is_ok());
            core::mem::forget(r);
            core::mem::forget(m);
        }
    };
}

//@ harness: c16_sumvec_encode_len1
//@ prop: C16
//@ tier: quick
//@ cost: 3
//@ funcs: SumVec::encode_measurement, encode_range_checked_int
//@ bounds: SumVec<Field64>(max 2, len 2, chunk 2); measurement of length 1, entries every u64
//@ asserts: Err (wrong length); never panics
//@ stubs: alloc::fmt::format
sumvec_encode!(c16_sumvec_encode_len1, 1);

//@ harness: c16_sumvec_encode_len2
//@ prop: C16
//@ tier: quick
//@ cost: 52
//@ funcs: SumVec::encode_measurement, encode_range_checked_int
//@ bounds: SumVec<Field64>(max 2, len 2, chunk 2); measurement of length 2, entries every u64
//@ asserts: Ok iff every entry <= 2; output length = input_len; never panics
//@ stubs: alloc::fmt::format
sumvec_encode!(c16_sumvec_encode_len2, 2);

//@ harness: c16_sumvec_encode_len3
//@ prop: C16
//@ tier: quick
//@ cost: 3
//@ funcs: SumVec::encode_measurement
//@ bounds: SumVec<Field64>(max 2, len 2, chunk 2); measurement of length 3, entries every u64
//@ asserts: Err (wrong length); never panics
//@ stubs: alloc::fmt::format
sumvec_encode!(c16_sumvec_encode_len3, 3);

macro_rules! multihot_encode {
    ($name:ident, $n:expr) => {
        #[kani::proof]
        #[kani::unwind(9)]
        #[kani::stub(alloc::fmt::format, fmt_stub)]
        pub fn $name() {
            let t = MultihotCountVec::<Field64, PS64>::new(3, 2, 2).unwrap();
            let b: [bool; $n] = kani::any();
            let m: Vec<bool> = b.to_vec();
            let w = b.iter().filter(|x| **x).count();
            let r = t.encode_measurement(&m);
            assert_eq!(r.is_ok(), $n == 3 && w <= 2);
            if let Ok(v) = &r {
                assert_eq!(v.len(), t.input_len());
            }
            kani::cover!(r.is_err());
            kani::cover!($n != 3 || r.is_ok());
            core::mem::forget(r);
            core::mem::forget(m);
        }
    };
}

//@ harness: c16_multihot_encode2
//@ prop: C16
//@ tier: quick
//@ cost: 4
//@ funcs: MultihotCountVec::encode_measurement
//@ bounds: MultihotCountVec<Field64>(buckets 3, max_weight 2, chunk 2); every bool vector of length 2
//@ asserts: Err (wrong length); never panics
//@ stubs: alloc::fmt::format
multihot_encode!(c16_multihot_encode2, 2);

//@ harness: c16_multihot_encode3
//@ prop: C16
//@ tier: quick
//@ cost: 21
//@ funcs: MultihotCountVec::encode_measurement, encode_range_checked_int
//@ bounds: MultihotCountVec<Field64>(buckets 3, max_weight 2, chunk 2); every bool vector of length 3
//@ asserts: Ok iff weight <= 2; output length = input_len; never panics
//@ stubs: alloc::fmt::format
multihot_encode!(c16_multihot_encode3, 3);

//@ harness: c16_multihot_encode4
//@ prop: C16
//@ tier: quick
//@ cost: 6
//@ funcs: MultihotCountVec::encode_measurement
//@ bounds: MultihotCountVec<Field64>(buckets 3, max_weight 2, chunk 2); every bool vector of length 4
//@ asserts: Err (wrong length); never panics
//@ stubs: alloc::fmt::format
multihot_encode!(c16_multihot_encode4, 4);

macro_rules! l1_encode {
    ($name:ident, $n:expr) => {
        #[kani::proof]
        #[kani::unwind(9)]
        #[kani::stub(alloc::fmt::format, fmt_stub)]
        pub fn $name() {
            let t = L1BoundSum::<Field64, PS64>::new(3, 2, 2).unwrap();
            let vals: [u64; $n] = kani::any();
            let m: Vec<u64> = vals.to_vec();
            let r = t.encode_measurement(&m);
            let sum: u128 = vals.iter().map(|v| *v as u128).sum();
            assert_eq!(r.is_ok(), $n == 2 && vals.iter().all(|v| *v <= 3) && sum <= 3);
            if let Ok(v) = &r {
                assert_eq!(v.len(), t.input_len());
            }
            kani::cover!(r.is_err());
            kani::cover!($n != 2 || r.is_ok());
            core::mem::forget(r);
            core::mem::forget(m);
        }
    };
}

//@ harness: c16_l1boundsum_encode1
//@ prop: C16
//@ tier: quick
//@ cost: 3
//@ funcs: L1BoundSum::encode_measurement
//@ bounds: L1BoundSum<Field64>(max_value 3, len 2, chunk 2); measurement of length 1, entries every u64
//@ asserts: Err (wrong length); never panics
//@ stubs: alloc::fmt::format
l1_encode!(c16_l1boundsum_encode1, 1);

//@ harness: c16_l1boundsum_encode2
//@ prop: C16
//@ tier: quick
//@ cost: 105
//@ funcs: L1BoundSum::encode_measurement, encode_range_checked_int
//@ bounds: L1BoundSum<Field64>(max_value 3, len 2, chunk 2); measurement of length 2, entries every u64
//@ asserts: Ok iff entries <= 3 and their sum <= 3; never panics (incl. overflow of the norm accumulator)
//@ stubs: alloc::fmt::format
l1_encode!(c16_l1boundsum_encode2, 2);

//@ harness: c16_l1boundsum_encode3
//@ prop: C16
//@ tier: quick
//@ cost: 5
//@ funcs: L1BoundSum::encode_measurement
//@ bounds: L1BoundSum<Field64>(max_value 3, len 2, chunk 2); measurement of length 3, entries every u64
//@ asserts: Err (wrong length); never panics
//@ stubs: alloc::fmt::format
l1_encode!(c16_l1boundsum_encode3, 3);
