// C07 (canonical, round-trip, exact length) and C08 (decoders are total) — one harness family.
// For a message type T with decoding parameter P and a *concrete* byte length L the bytes are fully
// symbolic:  C08 = the decoder returns (all of CBMC's panic/overflow/bounds/unwrap checks pass);
//            C07 = on Ok(v): v re-encodes to exactly those bytes, encoded_len() = Some(L), and decoding
//                  the re-encoding gives an equal value.
// Length prefixes / tags are partitioned: one instance per admissible header value (payload symbolic)
// plus one instance with the header symbolic but inadmissible (must be refused before any loop).
use crate::codec::{
    decode_fixlen_items, decode_u16_items, decode_u32_items, decode_u8_items, encode_u16_items,
    encode_u32_items, encode_u8_items, CodecError, Decode, Encode, ParameterizedDecode,
};
use crate::vdaf::xof::Seed;
use std::io::Cursor;

fn fmt_stub(_: core::fmt::Arguments<'_>) -> String {
    String::new()
}

// ---------------------------------------------------------------------------------------------
// primitives

macro_rules! int_roundtrip {
    ($name:ident, $T:ty, $N:expr) => {
        #[kani::proof]
        #[kani::unwind(10)]
        pub fn $name() {
            let b: [u8; $N] = kani::any();
            let r = <$T>::get_decoded(&b);
            assert!(r.is_ok());
            let v = r.unwrap();
            assert_eq!(v, <$T>::from_be_bytes(b));
            let mut out = Vec::with_capacity($N);
            assert!(v.encode(&mut out).is_ok());
            assert_eq!(out.len(), $N);
            for i in 0..$N {
                assert_eq!(out[i], b[i]);
            }
            assert_eq!(v.encoded_len(), Some($N));
            // one byte short / one byte long are refused
            let short = <$T>::get_decoded(&b[..$N - 1]);
            assert!(short.is_err());
            let mut longer = [0u8; $N + 1];
            longer[..$N].copy_from_slice(&b);
            longer[$N] = kani::any();
            let long = <$T>::get_decoded(&longer);
            assert!(long.is_err());
            kani::cover!(true);
            core::mem::forget((out, short, long));
        }
    };
}

//@ harness: c07_u8
//@ prop: C07,C08
//@ tier: quick
//@ cost: 5
//@ funcs: <u8 as Decode/Encode>, ParameterizedDecode::get_decoded_with_param
//@ bounds: every byte string of length 0,1,2
//@ asserts: big-endian round trip both ways; encoded_len exact; truncated / extended input refused
int_roundtrip!(c07_u8, u8, 1);

//@ harness: c07_u16
//@ prop: C07,C08
//@ tier: quick
//@ cost: 5
//@ funcs: <u16 as Decode/Encode>
//@ bounds: every byte string of length 1,2,3
//@ asserts: big-endian round trip both ways; encoded_len exact; truncated / extended input refused
int_roundtrip!(c07_u16, u16, 2);

//@ harness: c07_u32
//@ prop: C07,C08
//@ tier: quick
//@ cost: 5
//@ funcs: <u32 as Decode/Encode>
//@ bounds: every byte string of length 3,4,5
//@ asserts: big-endian round trip both ways; encoded_len exact; truncated / extended input refused
int_roundtrip!(c07_u32, u32, 4);

//@ harness: c07_u64
//@ prop: C07,C08
//@ tier: quick
//@ cost: 5
//@ funcs: <u64 as Decode/Encode>
//@ bounds: every byte string of length 7,8,9
//@ asserts: big-endian round trip both ways; encoded_len exact; truncated / extended input refused
int_roundtrip!(c07_u64, u64, 8);

macro_rules! seed_roundtrip {
    ($name:ident, $N:expr) => {
        #[kani::proof]
        #[kani::unwind(35)]
        pub fn $name() {
            let b: [u8; $N] = kani::any();
            let r = Seed::<$N>::get_decoded(&b);
            assert!(r.is_ok());
            let v = r.unwrap();
            let mut out = Vec::with_capacity($N);
            assert!(v.encode(&mut out).is_ok());
            assert_eq!(out.len(), $N);
            let i: usize = kani::any();
            kani::assume(i < $N);
            assert_eq!(out[i], b[i]);
            assert_eq!(v.encoded_len(), Some($N));
            let short = Seed::<$N>::get_decoded(&b[..$N - 1]);
            assert!(short.is_err());
            let mut longer = [0u8; $N + 1];
            longer[..$N].copy_from_slice(&b);
            let long = Seed::<$N>::get_decoded(&longer);
            assert!(long.is_err());
            kani::cover!(true);
            core::mem::forget((out, short, long, v));
        }
    };
}

//@ harness: c07_seed16
//@ prop: C07,C08
//@ tier: quick
//@ cost: 5
//@ funcs: <Seed<16> as Decode/Encode>
//@ bounds: every byte string of length 15,16,17
//@ asserts: round trip identical at every byte position; encoded_len exact; wrong lengths refused
seed_roundtrip!(c07_seed16, 16);

//@ harness: c07_seed32
//@ prop: C07,C08
//@ tier: quick
//@ cost: 8
//@ funcs: <Seed<32> as Decode/Encode>
//@ bounds: every byte string of length 31,32,33
//@ asserts: round trip identical at every byte position; encoded_len exact; wrong lengths refused
seed_roundtrip!(c07_seed32, 32);

// ---- variable-length vectors: header-partitioned ------------------------------------------------

macro_rules! items_admissible {
    ($name:ident, $dec:ident, $enc:ident, $hdr:expr, $len:expr, $total:expr) => {
        #[kani::proof]
        #[kani::unwind(8)]
        #[kani::stub(alloc::fmt::format, fmt_stub)]
        pub fn $name() {
            // total buffer = header ($hdr bytes, value $len) + $len payload bytes + trailing bytes
            let mut b: [u8; $total] = kani::any();
            let hv: u64 = $len;
            for k in 0..$hdr {
                b[k] = (hv >> (8 * ($hdr - 1 - k))) as u8;
            }
            let mut cur = Cursor::new(&b[..]);
            let r: Result<Vec<u8>, CodecError> = $dec(&(), &mut cur);
            if $hdr + $len <= $total {
                assert!(r.is_ok());
                let v = r.unwrap();
                assert_eq!(v.len(), $len);
                assert_eq!(cur.position() as usize, $hdr + $len);
                for i in 0..$len {
                    assert_eq!(v[i], b[$hdr + i]);
                }
                let mut out = Vec::with_capacity($hdr + $len);
                assert!($enc(&mut out, &(), &v).is_ok());
                assert_eq!(out.len(), $hdr + $len);
                for i in 0..($hdr + $len) {
                    assert_eq!(out[i], b[i]);
                }
                core::mem::forget((v, out));
            } else {
                assert!(r.is_err()); // prefix larger than what is left
                core::mem::forget(r);
            }
            kani::cover!(true);
        }
    };
}

//@ harness: c07_u8_items_len0
//@ prop: C07,C08
//@ tier: quick
//@ cost: 8
//@ funcs: codec::{decode_u8_items, encode_u8_items, decode_fixlen_items}
//@ bounds: u8 length prefix = 0, 3-byte buffer (2 trailing bytes symbolic)
//@ asserts: decodes the exact payload, cursor advanced by header+payload, re-encoding reproduces the consumed bytes
items_admissible!(c07_u8_items_len0, decode_u8_items, encode_u8_items, 1, 0, 3);

//@ harness: c07_u8_items_len3
//@ prop: C07,C08
//@ tier: quick
//@ cost: 10
//@ funcs: codec::{decode_u8_items, encode_u8_items, decode_fixlen_items}
//@ bounds: u8 length prefix = 3, 5-byte buffer, payload and trailing byte symbolic
//@ asserts: decodes the exact payload, cursor advanced by header+payload, re-encoding reproduces the consumed bytes
items_admissible!(c07_u8_items_len3, decode_u8_items, encode_u8_items, 1, 3, 5);

//@ harness: c07_u8_items_len_exceeds
//@ prop: C07,C08
//@ tier: quick
//@ cost: 8
//@ funcs: codec::{decode_u8_items, decode_fixlen_items}
//@ bounds: u8 length prefix = 4 with only 3 bytes left
//@ asserts: refused (LengthPrefixTooBig), no out-of-bounds slice
items_admissible!(c07_u8_items_len_exceeds, decode_u8_items, encode_u8_items, 1, 4, 4);

//@ harness: c07_u16_items_len2
//@ prop: C07,C08
//@ tier: quick
//@ cost: 10
//@ funcs: codec::{decode_u16_items, encode_u16_items, decode_fixlen_items}
//@ bounds: u16 length prefix = 2, 5-byte buffer
//@ asserts: decodes the exact payload; re-encoding reproduces the consumed bytes
items_admissible!(c07_u16_items_len2, decode_u16_items, encode_u16_items, 2, 2, 5);

//@ harness: c07_u32_items_len2
//@ prop: C07,C08
//@ tier: quick
//@ cost: 10
//@ funcs: codec::{decode_u32_items, encode_u32_items, decode_fixlen_items}
//@ bounds: u32 length prefix = 2, 7-byte buffer
//@ asserts: decodes the exact payload; re-encoding reproduces the consumed bytes
items_admissible!(c07_u32_items_len2, decode_u32_items, encode_u32_items, 4, 2, 7);

macro_rules! items_inadmissible {
    ($name:ident, $dec:ident, $hdr:expr, $total:expr, $pos:expr) => {
        #[kani::proof]
        #[kani::unwind(6)]
        #[kani::stub(alloc::fmt::format, fmt_stub)]
        pub fn $name() {
            // header fully symbolic but larger than the bytes that remain after it; the cursor starts
            // at offset $pos so that "prefix <= total length" and "prefix <= remaining" differ.
            let b: [u8; $total] = kani::any();
            let mut hv: u64 = 0;
            for k in 0..$hdr {
                hv = (hv << 8) | b[$pos + k] as u64;
            }
            kani::assume(hv > ($total - $pos - $hdr) as u64);
            let mut cur = Cursor::new(&b[..]);
            cur.set_position($pos as u64);
            let r: Result<Vec<u8>, CodecError> = $dec(&(), &mut cur);
            assert!(r.is_err());
            kani::cover!(hv == ($total - $pos - $hdr + 1) as u64);
            kani::cover!(hv as usize == $total);
            core::mem::forget(r);
        }
    };
}

//@ harness: c08_u8_items_prefix_too_big
//@ prop: C08,C07
//@ tier: quick
//@ cost: 8
//@ funcs: codec::{decode_u8_items, decode_fixlen_items}
//@ bounds: 8-byte buffer, cursor at offset 3, every u8 prefix value larger than the 4 remaining bytes (incl. values <= total buffer length)
//@ asserts: refused; never slices out of range
items_inadmissible!(c08_u8_items_prefix_too_big, decode_u8_items, 1, 8, 3);

//@ harness: c08_u16_items_prefix_too_big
//@ prop: C08,C07
//@ tier: quick
//@ cost: 8
//@ funcs: codec::{decode_u16_items, decode_fixlen_items}
//@ bounds: 8-byte buffer, cursor at offset 2, every u16 prefix value larger than the 4 remaining bytes
//@ asserts: refused; never slices out of range
items_inadmissible!(c08_u16_items_prefix_too_big, decode_u16_items, 2, 8, 2);

//@ harness: c08_u32_items_prefix_too_big
//@ prop: C08,C07
//@ tier: quick
//@ cost: 8
//@ funcs: codec::{decode_u32_items, decode_fixlen_items}
//@ bounds: 10-byte buffer, cursor at offset 3, every u32 prefix value larger than the 3 remaining bytes (up to 0xFFFFFFFF)
//@ asserts: refused; never slices out of range; no overflow in position + length
items_inadmissible!(c08_u32_items_prefix_too_big, decode_u32_items, 4, 10, 3);

//@ harness: c08_fixlen_items_any_length
//@ prop: C08
//@ tier: quick
//@ cost: 10
//@ funcs: codec::decode_fixlen_items
//@ bounds: 6-byte buffer, cursor at offset 2, length argument: every usize larger than the 4 remaining bytes (incl. usize::MAX)
//@ asserts: refused; position + length overflow handled
#[kani::proof]
#[kani::unwind(3)]
#[kani::stub(alloc::fmt::format, fmt_stub)]
pub fn c08_fixlen_items_any_length() {
    let b: [u8; 6] = kani::any();
    let len: usize = kani::any();
    kani::assume(len > 4);
    let mut cur = Cursor::new(&b[..]);
    cur.set_position(2);
    let r: Result<Vec<u8>, CodecError> = decode_fixlen_items(len, &(), &mut cur);
    assert!(r.is_err());
    kani::cover!(len == usize::MAX);
    kani::cover!(len == 5);
    core::mem::forget(r);
}

