// C19 (narrow): the query point chosen by the aggregators is never an interpolation node; Prio2 message codecs.
// Mounted inside vdaf::prio2.
use super::super::*;
use crate::codec::{Encode, ParameterizedDecode};
use crate::field::{FieldElement, FieldPrio2, NttFriendlyFieldElement};

fn fmt_stub(_: core::fmt::Arguments<'_>) -> String {
    String::new()
}

// (A harness for Prio2::choose_eval_at - first candidate a 2n-th root of unity - was tried in three shapes and
// exhausts CBMC's memory (> 9 GB): the rejection loop around Prng::get around a 32-bit pow. The query-point
// exclusion is therefore outside the claim; seed C19-m1 is missed.)

//@ harness: c07_prio2_verifier_share
//@ prop: C07,C08,C19
//@ tier: quick
//@ cost: 60
//@ funcs: Prio2VerifierShare::{decode_with_param, encode, encoded_len}
//@ bounds: every 12-byte string (three 32-bit field elements); 11- and 13-byte strings
//@ asserts: accepted iff every element is below the modulus; encoded_len = 12; other lengths refused
//@ stubs: alloc::fmt::format
#[kani::proof]
#[kani::unwind(8)]
#[kani::stub(alloc::fmt::format, fmt_stub)]
pub fn c07_prio2_verifier_share() {
    const PR: u32 = 4293918721;
    let st = Prio2VerifierState(Share::Leader(Vec::new()));
    let b: [u8; 13] = kani::any();
    let e = |i: usize| u32::from_le_bytes([b[4 * i], b[4 * i + 1], b[4 * i + 2], b[4 * i + 3]]);
    let r = Prio2VerifierShare::get_decoded_with_param(&st, &b[..12]);
    assert_eq!(r.is_ok(), e(0) < PR && e(1) < PR && e(2) < PR);
    if let Ok(v) = &r {
        assert_eq!(v.encoded_len(), Some(12));
    }
    let short = Prio2VerifierShare::get_decoded_with_param(&st, &b[..11]);
    let long = Prio2VerifierShare::get_decoded_with_param(&st, &b[..]);
    assert!(short.is_err() && long.is_err());
    kani::cover!(r.is_ok());
    kani::cover!(r.is_err());
    core::mem::forget((r, short, long, st));
}

fn le32(b: &[u8]) -> u32 {
    u32::from_le_bytes([b[0], b[1], b[2], b[3]])
}

const PR2: u32 = 4293918721;

//@ harness: c07_prio2_input_share
//@ prop: C07,C08,C19
//@ tier: quick
//@ cost: 90
//@ funcs: <Share<FieldPrio2,32> as ParameterizedDecode<(&Prio2, usize)>>::decode_with_param, Share::{encode, encoded_len}, role_try_from
//@ bounds: Prio2 with input_len 1 (leader share = proof_length(1) = 6 elements = 24 bytes; helper share = 32-byte seed); every byte string of the honest length and of honest+-1; every aggregator id (usize)
//@ asserts: leader: accepted iff all six elements are below the modulus, encoded_len 24; helper: every 32-byte string, encoded_len 32; other lengths and aggregator ids >= 2 refused
//@ stubs: alloc::fmt::format
#[kani::proof]
#[kani::unwind(34)]
#[kani::stub(alloc::fmt::format, fmt_stub)]
pub fn c07_prio2_input_share() {
    let vdaf = Prio2::new(1).unwrap();
    let b: [u8; 33] = kani::any();
    let l = Share::<FieldPrio2, 32>::get_decoded_with_param(&(&vdaf, 0usize), &b[..24]);
    let mut canon = true;
    let mut k = 0;
    while k < 6 {
        canon &= le32(&b[4 * k..]) < PR2;
        k += 1;
    }
    assert_eq!(l.is_ok(), canon);
    if let Ok(v) = &l {
        assert!(matches!(v, Share::Leader(d) if d.len() == 6));
        assert_eq!(v.encoded_len(), Some(24));
    }
    let l1 = Share::<FieldPrio2, 32>::get_decoded_with_param(&(&vdaf, 0usize), &b[..23]);
    let l2 = Share::<FieldPrio2, 32>::get_decoded_with_param(&(&vdaf, 0usize), &b[..25]);
    assert!(l1.is_err() && l2.is_err());
    let h = Share::<FieldPrio2, 32>::get_decoded_with_param(&(&vdaf, 1usize), &b[..32]);
    assert!(h.is_ok());
    if let Ok(v) = &h {
        assert!(matches!(v, Share::Helper(_)));
        assert_eq!(v.encoded_len(), Some(32));
    }
    let h1 = Share::<FieldPrio2, 32>::get_decoded_with_param(&(&vdaf, 1usize), &b[..31]);
    let h2 = Share::<FieldPrio2, 32>::get_decoded_with_param(&(&vdaf, 1usize), &b[..]);
    assert!(h1.is_err() && h2.is_err());
    let id: usize = kani::any();
    kani::assume(id >= 2);
    let bad = Share::<FieldPrio2, 32>::get_decoded_with_param(&(&vdaf, id), &b[..24]);
    assert!(bad.is_err());
    kani::cover!(l.is_ok());
    kani::cover!(l.is_err());
    core::mem::forget((l, l1, l2, h, h1, h2, bad));
}

//@ harness: c07_prio2_verifier_state
//@ prop: C07,C08,C19
//@ tier: quick
//@ cost: 60
//@ funcs: Prio2VerifierState::{decode_with_param, encode, encoded_len}
//@ bounds: Prio2 with input_len 2: leader state = 2 elements (8 bytes), helper state = 32-byte seed; honest length and +-1
//@ asserts: leader: accepted iff both elements canonical, encoded_len 8; helper: every 32-byte string; other lengths refused
//@ stubs: alloc::fmt::format
#[kani::proof]
#[kani::unwind(34)]
#[kani::stub(alloc::fmt::format, fmt_stub)]
pub fn c07_prio2_verifier_state() {
    let vdaf = Prio2::new(2).unwrap();
    let b: [u8; 33] = kani::any();
    let l = Prio2VerifierState::get_decoded_with_param(&(&vdaf, 0usize), &b[..8]);
    assert_eq!(l.is_ok(), le32(&b[0..]) < PR2 && le32(&b[4..]) < PR2);
    if let Ok(v) = &l {
        assert_eq!(v.encoded_len(), Some(8));
    }
    let l1 = Prio2VerifierState::get_decoded_with_param(&(&vdaf, 0usize), &b[..7]);
    let l2 = Prio2VerifierState::get_decoded_with_param(&(&vdaf, 0usize), &b[..9]);
    assert!(l1.is_err() && l2.is_err());
    let h = Prio2VerifierState::get_decoded_with_param(&(&vdaf, 1usize), &b[..32]);
    assert!(h.is_ok());
    if let Ok(v) = &h {
        assert_eq!(v.encoded_len(), Some(32));
    }
    let h2 = Prio2VerifierState::get_decoded_with_param(&(&vdaf, 1usize), &b[..]);
    assert!(h2.is_err());
    kani::cover!(l.is_ok());
    kani::cover!(l.is_err());
    core::mem::forget((l, l1, l2, h, h2));
}
