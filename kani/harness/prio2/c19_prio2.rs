// C19 (narrow): the query point chosen by the aggregators is never an interpolation node; Prio2 message codecs.
// Mounted inside vdaf::prio2.
use super::super::*;
use crate::codec::{Encode, ParameterizedDecode};
use crate::field::{FieldElement, FieldPrio2, NttFriendlyFieldElement};

fn fmt_stub(_: core::fmt::Arguments<'_>) -> String {
    String::new()
}

// (A harness for Prio2::choose_eval_at - first candidate a 2n-th root of unity - was tried in three shapes and
// exhausts CBMC's memory (> 9 GB): the rejection loop around Prng::get around a 32-bit pow. The query-point
// exclusion is therefore outside the claim; seed C19-m1 is missed.)

//@ harness: c07_prio2_verifier_share
//@ prop: C07,C08,C19
//@ tier: quick
//@ cost: 60
//@ funcs: Prio2VerifierShare::{decode_with_param, encode, encoded_len}
//@ bounds: every 12-byte string (three 32-bit field elements); 11- and 13-byte strings
//@ asserts: accepted iff every element is below the modulus; encoded_len = 12; other lengths refused
//@ stubs: alloc::fmt::format
#[kani::proof]
#[kani::unwind(8)]
#[kani::stub(alloc::fmt::format, fmt_stub)]
pub fn c07_prio2_verifier_share() {
    const PR: u32 = 4293918721;
    let st = Prio2VerifierState(Share::Leader(Vec::new()));
    let b: [u8; 13] = kani::any();
    let e = |i: usize| u32::from_le_bytes([b[4 * i], b[4 * i + 1], b[4 * i + 2], b[4 * i + 3]]);
    let r = Prio2VerifierShare::get_decoded_with_param(&st, &b[..12]);
    assert_eq!(r.is_ok(), e(0) < PR && e(1) < PR && e(2) < PR);
    if let Ok(v) = &r {
        assert_eq!(v.encoded_len(), Some(12));
    }
    let short = Prio2VerifierShare::get_decoded_with_param(&st, &b[..11]);
    let long = Prio2VerifierShare::get_decoded_with_param(&st, &b[..]);
    assert!(short.is_err() && long.is_err());
    kani::cover!(r.is_ok());
    kani::cover!(r.is_err());
    core::mem::forget((r, short, long, st));
}
