// C16 (and the structural half of C02) for Prio3's Result-returning protocol operations: wrong share counts,
// shares of the wrong shape and missing optional parts must be refused with an error, never a panic.
// The XOF is a harness stub (constant stream): these paths do not depend on the hash output.
use super::super::*;
use crate::field::{Field8, FieldElement};
use crate::flp::gadgets::{Mul, ParallelSum};
use crate::flp::types::{Count, SumVec};
use crate::vdaf::xof::{Seed, Xof};
use crate::flp::Flp;
use crate::vdaf::Aggregator;
use core::convert::Infallible;
use rand_core::TryRng;

fn fmt_stub(_: core::fmt::Arguments<'_>) -> String {
    String::new()
}

#[derive(Clone, Debug)]
pub struct StubXof;
pub struct StubStream;

impl TryRng for StubStream {
    type Error = Infallible;
    fn try_next_u32(&mut self) -> Result<u32, Infallible> {
        Ok(0)
    }
    fn try_next_u64(&mut self) -> Result<u64, Infallible> {
        Ok(0)
    }
    fn try_fill_bytes(&mut self, dst: &mut [u8]) -> Result<(), Infallible> {
        dst.fill(0);
        Ok(())
    }
}

impl Xof<4> for StubXof {
    type SeedStream = StubStream;
    fn init(_: &[u8; 4], _: &[&[u8]]) -> Self {
        StubXof
    }
    fn update(&mut self, _: &[u8]) {}
    fn into_seed_stream(self) -> StubStream {
        StubStream
    }
}

type P3C = Prio3<Count<Field8>, StubXof, 4>;
type P3S = Prio3<SumVec<Field8, ParallelSum<Field8, Mul>>, StubXof, 4>;

fn any_elem() -> Field8 {
    let raw: u8 = kani::any();
    match Field8::verif_from_raw(raw) {
        Some(e) => e,
        None => {
            kani::assume(false);
            Field8::zero()
        }
    }
}

macro_rules! share_count {
    ($name:ident, $n:expr, $unwind:expr) => {
        #[kani::proof]
        #[kani::unwind($unwind)]
        #[kani::stub(alloc::fmt::format, fmt_stub)]
        pub fn $name() {
            let vdaf: P3C = Prio3::new(2, 1, 0xFFFF_0001, Count::new()).unwrap();
            // a verifier share whose sum over any number of copies keeps decide() irrelevant: count is checked first
            let share = Prio3VerifierShare::<Field8, 4> {
                verifiers: vec![Field8::zero(), any_elem(), any_elem(), Field8::zero()],
                joint_rand_part: None,
            };
            let r = vdaf.verifier_shares_to_message(b"", &(), (0..$n).map(|_| share.clone()));
            if $n != 2 {
                assert!(r.is_err()); // wrong number of shares: an error, not a panic and not an acceptance
            }
            kani::cover!(true);
            core::mem::forget((r, share));
        }
    };
}

//@ harness: c16_p3_share_count_0
//@ prop: C16,C02
//@ tier: quick
//@ cost: 20
//@ funcs: Prio3::verifier_shares_to_message
//@ bounds: Prio3<Count<GF(17)>>, 2 aggregators; 0 shares
//@ asserts: Err
//@ stubs: alloc::fmt::format; XOF = constant stream
share_count!(c16_p3_share_count_0, 0usize, 6);

//@ harness: c16_p3_share_count_1
//@ prop: C16,C02
//@ tier: quick
//@ cost: 20
//@ funcs: Prio3::verifier_shares_to_message
//@ bounds: Prio3<Count<GF(17)>>, 2 aggregators; 1 share (arbitrary wire values)
//@ asserts: Err
//@ stubs: alloc::fmt::format; XOF = constant stream
share_count!(c16_p3_share_count_1, 1usize, 6);

//@ harness: c16_p3_share_count_3
//@ prop: C16,C02
//@ tier: quick
//@ cost: 30
//@ funcs: Prio3::verifier_shares_to_message
//@ bounds: Prio3<Count<GF(17)>>, 2 aggregators; 3 shares
//@ asserts: Err
//@ stubs: alloc::fmt::format; XOF = constant stream
share_count!(c16_p3_share_count_3, 3usize, 6);

// (258 shares = 2 mod 256 would exercise the u8 share counter; CBMC does not finish the 258 unrolled iterations in 25 min,
// so the counter overflow noted in DESIGN.md section 5 is outside this check.)

//@ harness: c16_p3_share_wrong_len
//@ prop: C16,C02
//@ tier: quick
//@ cost: 30
//@ funcs: Prio3::verifier_shares_to_message
//@ bounds: Prio3<Count<GF(17)>>, 2 aggregators; two shares, the second with 3 or 5 verifier elements
//@ asserts: Err
//@ stubs: alloc::fmt::format; XOF = constant stream
#[kani::proof]
#[kani::unwind(8)]
#[kani::stub(alloc::fmt::format, fmt_stub)]
pub fn c16_p3_share_wrong_len() {
    let vdaf: P3C = Prio3::new(2, 1, 0xFFFF_0001, Count::new()).unwrap();
    let good = Prio3VerifierShare::<Field8, 4> { verifiers: vec![any_elem(); 4], joint_rand_part: None };
    let short = Prio3VerifierShare::<Field8, 4> { verifiers: vec![any_elem(); 3], joint_rand_part: None };
    let long = Prio3VerifierShare::<Field8, 4> { verifiers: vec![any_elem(); 5], joint_rand_part: None };
    let r1 = vdaf.verifier_shares_to_message(b"", &(), [good.clone(), short]);
    let r2 = vdaf.verifier_shares_to_message(b"", &(), [long, good]);
    assert!(r1.is_err() && r2.is_err());
    kani::cover!(true);
    core::mem::forget((r1, r2));
}

//@ harness: c16_p3_share_missing_part
//@ prop: C16,C02
//@ tier: quick
//@ cost: 60
//@ funcs: Prio3::verifier_shares_to_message (type with joint randomness)
//@ bounds: Prio3<SumVec<GF(17)>(1,2,2)>, 2 aggregators; two shares of the right length, the second without its joint-randomness part
//@ asserts: Err (no unwrap panic)
//@ stubs: alloc::fmt::format; XOF = constant stream
#[kani::proof]
#[kani::unwind(8)]
#[kani::stub(alloc::fmt::format, fmt_stub)]
pub fn c16_p3_share_missing_part() {
    let vdaf: P3S = Prio3::new(2, 1, 0xFFFF_0002, SumVec::new(1, 2, 2).unwrap()).unwrap();
    let a = Prio3VerifierShare::<Field8, 4> { verifiers: vec![any_elem(); 6], joint_rand_part: Some(Seed::from_bytes(kani::any())) };
    let b = Prio3VerifierShare::<Field8, 4> { verifiers: vec![any_elem(); 6], joint_rand_part: None };
    let r = vdaf.verifier_shares_to_message(b"", &(), [a, b]);
    assert!(r.is_err());
    kani::cover!(true);
    core::mem::forget(r);
}

//@ harness: c16_p3_verify_next_missing_seed
//@ prop: C16,C02
//@ tier: quick
//@ cost: 60
//@ funcs: Prio3::verify_next (type with joint randomness)
//@ bounds: Prio3<SumVec<GF(17)>(1,2,2)>; leader state with/without seed against a message with/without seed (every combination but both present)
//@ asserts: Err (no unwrap panic)
//@ stubs: alloc::fmt::format; XOF = constant stream
#[kani::proof]
#[kani::unwind(8)]
#[kani::stub(alloc::fmt::format, fmt_stub)]
pub fn c16_p3_verify_next_missing_seed() {
    let vdaf: P3S = Prio3::new(2, 1, 0xFFFF_0002, SumVec::new(1, 2, 2).unwrap()).unwrap();
    let (s1, s2): (bool, bool) = (kani::any(), kani::any());
    kani::assume(!(s1 && s2));
    let state = Prio3VerifyState::<Field8, 4> {
        share: Share::Leader(vec![any_elem(), any_elem()]),
        joint_rand_seed: if s1 { Some(Seed::from_bytes(kani::any())) } else { None },
        agg_id: 0,
        verifiers_len: 6,
    };
    let msg = Prio3VerifierMessage::<4> { joint_rand_seed: if s2 { Some(Seed::from_bytes(kani::any())) } else { None } };
    let r = vdaf.verify_next(b"", state, msg);
    assert!(r.is_err());
    kani::cover!(s1);
    kani::cover!(s2);
    core::mem::forget(r);
}

//@ harness: c16_p3_verify_init_bad_agg_id
//@ prop: C16
//@ tier: quick
//@ cost: 120
//@ timeout: 1200
//@ funcs: Prio3::verify_init, Prio3::role_try_from
//@ bounds: Prio3<Count<GF(17)>>, 2 aggregators; agg_id every usize >= 2; honest-shaped leader share
//@ asserts: Err (aggregator identifier out of range)
//@ stubs: alloc::fmt::format; XOF = constant stream
#[kani::proof]
#[kani::unwind(10)]
#[kani::stub(alloc::fmt::format, fmt_stub)]
pub fn c16_p3_verify_init_bad_agg_id() {
    let vdaf: P3C = Prio3::new(2, 1, 0xFFFF_0001, Count::new()).unwrap();
    let id: usize = kani::any();
    kani::assume(id >= 2);
    let share = Prio3InputShare::<Field8, 4>::Leader {
        measurement_share: vec![any_elem()],
        proofs_share: vec![any_elem(); 5],
        joint_rand_blind: None,
    };
    let public = Prio3PublicShare::<4> { joint_rand_parts: None };
    let r = vdaf.verify_init(&[0; 4], b"", id, &(), &[0; 16], &public, &share);
    assert!(r.is_err());
    kani::cover!(id == usize::MAX);
    core::mem::forget(r);
}

//@ harness: c16_p3_verify_init_short_proof
//@ prop: C16,C02
//@ tier: quick
//@ cost: 10
//@ funcs: Prio3::verify_init (leader arm)
//@ bounds: Prio3<Count<GF(17)>>, 2 aggregators; leader share whose proofs_share has 4 instead of 5 elements (element values concrete; verify key and nonce symbolic)
//@ asserts: Err (no slice-range panic)
//@ stubs: alloc::fmt::format; XOF = constant stream
#[kani::proof]
#[kani::unwind(10)]
#[kani::stub(alloc::fmt::format, fmt_stub)]
pub fn c16_p3_verify_init_short_proof() {
    let vdaf: P3C = Prio3::new(2, 1, 0xFFFF_0001, Count::new()).unwrap();
    let share = Prio3InputShare::<Field8, 4>::Leader {
        measurement_share: vec![Field8::one()],
        proofs_share: vec![Field8::one(); 4],
        joint_rand_blind: None,
    };
    let public = Prio3PublicShare::<4> { joint_rand_parts: None };
    let r = vdaf.verify_init(&kani::any(), b"", 0, &(), &kani::any(), &public, &share);
    assert!(r.is_err());
    kani::cover!(true);
    core::mem::forget(r);
}

//@ harness: c16_p3_random_size
//@ prop: C16,C01
//@ tier: quick
//@ cost: 30
//@ funcs: Prio3::random_size, Prio3::new
//@ bounds: every admissible aggregator count 1..=254 (u8), types with and without joint randomness, SEED_SIZE 4
//@ asserts: no overflow; = (1 or 2) * num_aggregators * SEED_SIZE
//@ stubs: alloc::fmt::format; XOF = constant stream
#[kani::proof]
#[kani::unwind(6)]
#[kani::stub(alloc::fmt::format, fmt_stub)]
pub fn c16_p3_random_size() {
    let n: u8 = kani::any();
    kani::assume(n >= 1 && n <= 254);
    let c: P3C = Prio3::new(n, 1, 0xFFFF_0001, Count::new()).unwrap();
    assert_eq!(c.random_size(), n as usize * 4);
    let s: P3S = Prio3::new(n, kani::any::<u8>().max(1), 0xFFFF_0002, SumVec::new(1, 2, 2).unwrap()).unwrap();
    assert_eq!(s.random_size(), 2 * n as usize * 4);
    kani::cover!(n == 254);
    kani::cover!(n == 128);
}

// ---------------------------------------------------------------------------------------------
// C02 (structural conditions only): the rejection conditions of Prio3 cannot be weakened unnoticed

//@ harness: c02_verify_next_seed_compare
//@ prop: C02
//@ tier: quick
//@ cost: 60
//@ funcs: Prio3::verify_next (leader state), Seed::ct_eq
//@ bounds: Prio3<SumVec<GF(17)>(1,2,2)> (joint_rand_len = 1), SEED_SIZE 4; every pair of 4-byte seeds (state's own vs message's), every output share
//@ asserts: Finish with exactly the state's output share iff all seed bytes are equal; otherwise an error; never Continue
//@ stubs: alloc::fmt::format; XOF = constant stream
#[kani::proof]
#[kani::unwind(8)]
#[kani::stub(alloc::fmt::format, fmt_stub)]
pub fn c02_verify_next_seed_compare() {
    let vdaf: P3S = Prio3::new(2, 1, 0xFFFF_0002, SumVec::new(1, 2, 2).unwrap()).unwrap();
    assert_eq!(vdaf.typ.joint_rand_len(), 1);
    let (s1, s2): ([u8; 4], [u8; 4]) = (kani::any(), kani::any());
    let out = [any_elem(), any_elem()];
    let state = Prio3VerifyState::<Field8, 4> {
        share: Share::Leader(out.to_vec()),
        joint_rand_seed: Some(Seed::from_bytes(s1)),
        agg_id: 0,
        verifiers_len: 6,
    };
    let msg = Prio3VerifierMessage::<4> { joint_rand_seed: Some(Seed::from_bytes(s2)) };
    let r = vdaf.verify_next(b"", state, msg);
    match &r {
        Ok(VerifyTransition::Finish(o)) => {
            assert!(s1 == s2);
            let d: &[Field8] = o.as_ref();
            assert!(d.len() == 2 && d[0] == out[0] && d[1] == out[1]);
        }
        Ok(VerifyTransition::Continue(..)) => panic!("Prio3 has a single round"),
        Err(_) => assert!(s1 != s2),
    }
    kani::cover!(r.is_ok());
    kani::cover!(r.is_err() && s1[0] == s2[0] && s1[1] == s2[1] && s1[2] == s2[2]);
    core::mem::forget(r);
}

//@ harness: c02_all_proofs_must_verify
//@ prop: C02,C05
//@ tier: quick
//@ cost: 120
//@ funcs: Prio3::verifier_shares_to_message (multi-proof), Flp::decide (Count)
//@ bounds: Prio3<Count<GF(17)>> with 2 proofs, 2 aggregators; the leader's verifier share arbitrary (8 elements), the helper's all zero
//@ asserts: accepted iff *each* proof's summed verifier satisfies the decision predicate (v0 = 0 and v1*v2 = v3)
//@ stubs: alloc::fmt::format; XOF = constant stream
#[kani::proof]
#[kani::unwind(10)]
#[kani::stub(alloc::fmt::format, fmt_stub)]
pub fn c02_all_proofs_must_verify() {
    let vdaf: P3C = Prio3::new(2, 2, 0xFFFF_0001, Count::new()).unwrap();
    let v = [any_elem(), any_elem(), any_elem(), any_elem(), any_elem(), any_elem(), any_elem(), any_elem()];
    let a = Prio3VerifierShare::<Field8, 4> { verifiers: v.to_vec(), joint_rand_part: None };
    let b = Prio3VerifierShare::<Field8, 4> { verifiers: vec![Field8::zero(); 8], joint_rand_part: None };
    let r = vdaf.verifier_shares_to_message(b"", &(), [a, b]);
    let ok = |k: usize| v[k] == Field8::zero() && v[k + 1] * v[k + 2] == v[k + 3];
    assert_eq!(r.is_ok(), ok(0) && ok(4));
    kani::cover!(r.is_ok());
    kani::cover!(ok(0) && !ok(4));
    kani::cover!(!ok(0) && ok(4));
    core::mem::forget(r);
}
