// C07/C08 for the Prio3 wire messages (mounted inside vdaf::prio3, so private fields are visible).
//
// A composite codec is decided as two contracts over the real functions, each for *all* values:
//   D (decode): for every byte string of the honest length: accepted iff every element is canonical, and
//               each decoded field equals the primitive decoder applied to its slice of the input, in
//               wire order; encoded_len() of the result = the input length; length +-1 is refused.
//   E (encode): for every value: the output is the concatenation of the primitive encodings of the
//               fields in wire order, and its length is what encoded_len() advertises.
// decode(encode(v)) = v and encode(decode(b)) = b follow from D, E and the bijectivity of the primitive
// codecs (u8..u64, Seed, field elements: root/c07.rs, root/c09.rs). Driving decode and encode in one
// harness was measured at 210-270 s / >9 GB for a 6-byte message and is therefore not done.
// Instances (1-byte field GF(17) keeps messages small):
//   P3C = Prio3<Count<GF17>>, 2 aggregators, 1 proof      (no joint randomness)
//   P3S = Prio3<SumVec<GF17>(max 1, len 2, chunk 2)>, 2 aggregators (joint randomness => seeds/blinds)
use super::super::*;
use crate::codec::{Encode, ParameterizedDecode};
use crate::field::{Field8, FieldElement};
use crate::flp::gadgets::{Mul, ParallelSum};
use crate::flp::types::{Count, SumVec};
use crate::vdaf::xof::{Seed, XofTurboShake128};
use crate::vdaf::{AggregateShare, OutputShare, Share};

type P3C = Prio3<Count<Field8>, XofTurboShake128, 32>;
type P3S = Prio3<SumVec<Field8, ParallelSum<Field8, Mul>>, XofTurboShake128, 32>;

fn fmt_stub(_: core::fmt::Arguments<'_>) -> String {
    String::new()
}

fn p3c() -> P3C {
    Prio3::new(2, 1, 0xFFFF_0001, Count::new()).unwrap()
}

fn p3s() -> P3S {
    Prio3::new(2, 1, 0xFFFF_0002, SumVec::new(1, 2, 2).unwrap()).unwrap()
}

fn elem(b: u8) -> Field8 {
    // primitive element decoder (its accept set / bijectivity: root/c09.rs)
    Field8::try_from(&[b][..]).unwrap()
}

fn any_elem() -> Field8 {
    let raw: u8 = kani::any();
    match Field8::verif_from_raw(raw) {
        Some(e) => e,
        None => {
            kani::assume(false);
            Field8::zero()
        }
    }
}

fn ebyte(e: Field8) -> u8 {
    <[u8; 1]>::from(e)[0]
}

fn seed_eq(s: &Seed<32>, b: &[u8]) -> bool {
    let a: &[u8; 32] = s.as_ref();
    let mut k = 0;
    while k < 32 {
        if a[k] != b[k] {
            return false;
        }
        k += 1;
    }
    true
}

fn any_seed() -> Seed<32> {
    Seed::from_bytes(kani::any())
}

// ---------------------------------------------------------------------------------------------
// Prio3InputShare

//@ harness: c07_p3c_leader_share_dec
//@ prop: C07,C08
//@ tier: quick
//@ cost: 25
//@ funcs: Prio3InputShare::decode_with_param (leader arm), decode_fieldvec, get_decoded_with_param, encoded_len
//@ bounds: Prio3<Count<GF(17)>>, agg_id 0; every 6-byte string (honest length)
//@ asserts: Ok iff every byte < 17; fields = element-wise parse in wire order (1 measurement + 5 proof elements, no blind); encoded_len = 6
//@ stubs: alloc::fmt::format
#[kani::proof]
#[kani::unwind(8)]
#[kani::stub(alloc::fmt::format, fmt_stub)]
pub fn c07_p3c_leader_share_dec() {
    let vdaf = p3c();
    let b: [u8; 6] = kani::any();
    let r = Prio3InputShare::<Field8, 32>::get_decoded_with_param(&(&vdaf, 0usize), &b[..]);
    let valid = b.iter().all(|x| *x < 17);
    assert_eq!(r.is_ok(), valid);
    if let Ok(v) = &r {
        assert_eq!(v.encoded_len(), Some(6));
        match v {
            Prio3InputShare::Leader { measurement_share, proofs_share, joint_rand_blind } => {
                assert_eq!(measurement_share.len(), 1);
                assert_eq!(proofs_share.len(), 5);
                assert!(joint_rand_blind.is_none());
                assert!(measurement_share[0] == elem(b[0]));
                let mut k = 0;
                while k < 5 {
                    assert!(proofs_share[k] == elem(b[1 + k]));
                    k += 1;
                }
            }
            _ => panic!("aggregator 0 must get a leader share"),
        }
    }
    kani::cover!(r.is_ok());
    kani::cover!(r.is_err());
    core::mem::forget(r);
}

macro_rules! refused_len {
    ($name:ident, $T:ty, $L:expr, $unwind:expr, $param:expr) => {
        #[kani::proof]
        #[kani::unwind($unwind)]
        #[kani::stub(alloc::fmt::format, fmt_stub)]
        pub fn $name() {
            let param = $param;
            let b: [u8; $L] = kani::any();
            let r = <$T>::get_decoded_with_param(&param, &b[..]);
            assert!(r.is_err());
            kani::cover!(true);
            core::mem::forget(r);
            core::mem::forget(param);
        }
    };
}

//@ harness: c07_p3c_leader_share_short
//@ prop: C07,C08
//@ tier: quick
//@ cost: 15
//@ funcs: Prio3InputShare::decode_with_param (leader arm)
//@ bounds: Prio3<Count<GF(17)>>, agg_id 0; every 5-byte string (truncated)
//@ asserts: refused, no panic
//@ stubs: alloc::fmt::format
refused_len!(c07_p3c_leader_share_short, Prio3InputShare<Field8, 32>, 5, 8, (&p3c(), 0usize));

//@ harness: c07_p3c_leader_share_long
//@ prop: C07,C08
//@ tier: quick
//@ cost: 20
//@ funcs: Prio3InputShare::decode_with_param (leader arm), get_decoded_with_param
//@ bounds: Prio3<Count<GF(17)>>, agg_id 0; every 7-byte string (one trailing byte)
//@ asserts: refused (trailing bytes), no panic
//@ stubs: alloc::fmt::format
refused_len!(c07_p3c_leader_share_long, Prio3InputShare<Field8, 32>, 7, 9, (&p3c(), 0usize));

//@ harness: c07_p3c_leader_share_enc
//@ prop: C07
//@ tier: quick
//@ cost: 15
//@ funcs: Prio3InputShare::{encode, encoded_len} (leader arm), encode_fixlen_items
//@ bounds: leader share with 1 + 5 arbitrary GF(17) elements, no blind
//@ asserts: output = measurement elements then proof elements, one byte each; length = encoded_len = 6
//@ stubs: alloc::fmt::format
#[kani::proof]
#[kani::unwind(8)]
#[kani::stub(alloc::fmt::format, fmt_stub)]
pub fn c07_p3c_leader_share_enc() {
    let m = [any_elem()];
    let p = [any_elem(), any_elem(), any_elem(), any_elem(), any_elem()];
    let v = Prio3InputShare::<Field8, 32>::Leader {
        measurement_share: m.to_vec(),
        proofs_share: p.to_vec(),
        joint_rand_blind: None,
    };
    let mut out = Vec::with_capacity(6);
    let e = v.encode(&mut out);
    assert!(e.is_ok());
    assert_eq!(out.len(), 6);
    assert_eq!(v.encoded_len(), Some(6));
    assert_eq!(out[0], ebyte(m[0]));
    let mut k = 0;
    while k < 5 {
        assert_eq!(out[1 + k], ebyte(p[k]));
        k += 1;
    }
    kani::cover!(true);
    core::mem::forget((e, out, v));
}

//@ harness: c07_p3s_leader_share_dec
//@ prop: C07,C08
//@ tier: quick
//@ cost: 60
//@ funcs: Prio3InputShare::decode_with_param (leader arm with blind)
//@ bounds: Prio3<SumVec<GF(17)>(1,2,2)>, agg_id 0; every 41-byte string (2 + 7 elements + 32-byte blind)
//@ asserts: Ok iff the 9 element bytes are < 17; fields in wire order; blind = last 32 bytes; encoded_len = 41
//@ stubs: alloc::fmt::format
#[kani::proof]
#[kani::unwind(34)]
#[kani::stub(alloc::fmt::format, fmt_stub)]
pub fn c07_p3s_leader_share_dec() {
    let vdaf = p3s();
    let b: [u8; 41] = kani::any();
    let r = Prio3InputShare::<Field8, 32>::get_decoded_with_param(&(&vdaf, 0usize), &b[..]);
    let valid = b[..9].iter().all(|x| *x < 17);
    assert_eq!(r.is_ok(), valid);
    if let Ok(v) = &r {
        assert_eq!(v.encoded_len(), Some(41));
        match v {
            Prio3InputShare::Leader { measurement_share, proofs_share, joint_rand_blind } => {
                assert_eq!(measurement_share.len(), 2);
                assert_eq!(proofs_share.len(), 7);
                assert!(measurement_share[0] == elem(b[0]) && measurement_share[1] == elem(b[1]));
                let mut k = 0;
                while k < 7 {
                    assert!(proofs_share[k] == elem(b[2 + k]));
                    k += 1;
                }
                match joint_rand_blind {
                    Some(s) => assert!(seed_eq(s, &b[9..])),
                    None => panic!("blind expected"),
                }
            }
            _ => panic!("aggregator 0 must get a leader share"),
        }
    }
    kani::cover!(r.is_ok());
    kani::cover!(r.is_err());
    core::mem::forget(r);
}

//@ harness: c07_p3s_leader_share_short
//@ prop: C07,C08
//@ tier: quick
//@ cost: 40
//@ funcs: Prio3InputShare::decode_with_param (leader arm with blind)
//@ bounds: Prio3<SumVec<GF(17)>(1,2,2)>, agg_id 0; every 40-byte string
//@ asserts: refused, no panic
//@ stubs: alloc::fmt::format
refused_len!(c07_p3s_leader_share_short, Prio3InputShare<Field8, 32>, 40, 34, (&p3s(), 0usize));

//@ harness: c07_p3s_leader_share_enc
//@ prop: C07
//@ tier: quick
//@ cost: 40
//@ funcs: Prio3InputShare::{encode, encoded_len} (leader arm with blind)
//@ bounds: leader share with 2 + 7 arbitrary GF(17) elements and an arbitrary 32-byte blind
//@ asserts: output = measurement, proofs, blind in that order; length = encoded_len = 41
//@ stubs: alloc::fmt::format
#[kani::proof]
#[kani::unwind(34)]
#[kani::stub(alloc::fmt::format, fmt_stub)]
pub fn c07_p3s_leader_share_enc() {
    let m = [any_elem(), any_elem()];
    let p = [any_elem(), any_elem(), any_elem(), any_elem(), any_elem(), any_elem(), any_elem()];
    let blind = any_seed();
    let v = Prio3InputShare::<Field8, 32>::Leader {
        measurement_share: m.to_vec(),
        proofs_share: p.to_vec(),
        joint_rand_blind: Some(blind.clone()),
    };
    let mut out = Vec::with_capacity(41);
    let e = v.encode(&mut out);
    assert!(e.is_ok());
    assert_eq!(out.len(), 41);
    assert_eq!(v.encoded_len(), Some(41));
    assert_eq!(out[0], ebyte(m[0]));
    assert_eq!(out[1], ebyte(m[1]));
    let mut k = 0;
    while k < 7 {
        assert_eq!(out[2 + k], ebyte(p[k]));
        k += 1;
    }
    assert!(seed_eq(&blind, &out[9..]));
    kani::cover!(true);
    core::mem::forget((e, out, v));
}

macro_rules! helper_share {
    ($dec:ident, $enc:ident, $vdaf:expr, $L:expr, $has_blind:expr) => {
        #[kani::proof]
        #[kani::unwind(34)]
        #[kani::stub(alloc::fmt::format, fmt_stub)]
        pub fn $dec() {
            let vdaf = $vdaf;
            let b: [u8; $L] = kani::any();
            let r = Prio3InputShare::<Field8, 32>::get_decoded_with_param(&(&vdaf, 1usize), &b[..]);
            assert!(r.is_ok()); // seeds: every string of the honest length is a share
            if let Ok(v) = &r {
                assert_eq!(v.encoded_len(), Some($L));
                match v {
                    Prio3InputShare::Helper { meas_and_proofs_share, joint_rand_blind } => {
                        assert!(seed_eq(meas_and_proofs_share, &b[..32]));
                        match joint_rand_blind {
                            Some(s) => {
                                assert!($has_blind);
                                assert!(seed_eq(s, &b[$L - 32..]));
                            }
                            None => assert!(!$has_blind),
                        }
                    }
                    _ => panic!("aggregator 1 must get a helper share"),
                }
            }
            let short = Prio3InputShare::<Field8, 32>::get_decoded_with_param(&(&vdaf, 1usize), &b[..$L - 1]);
            assert!(short.is_err());
            kani::cover!(true);
            core::mem::forget((r, short));
        }

        #[kani::proof]
        #[kani::unwind(34)]
        #[kani::stub(alloc::fmt::format, fmt_stub)]
        pub fn $enc() {
            let s1 = any_seed();
            let s2 = any_seed();
            let v = Prio3InputShare::<Field8, 32>::Helper {
                meas_and_proofs_share: s1.clone(),
                joint_rand_blind: if $has_blind { Some(s2.clone()) } else { None },
            };
            let mut out = Vec::with_capacity($L);
            let e = v.encode(&mut out);
            assert!(e.is_ok());
            assert_eq!(out.len(), $L);
            assert_eq!(v.encoded_len(), Some($L));
            assert!(seed_eq(&s1, &out[..32]));
            if $has_blind {
                assert!(seed_eq(&s2, &out[32..]));
            }
            kani::cover!(true);
            core::mem::forget((e, out, v));
        }
    };
}

//@ harness: c07_p3c_helper_share_dec
//@ prop: C07,C08
//@ tier: quick
//@ cost: 15
//@ funcs: Prio3InputShare::decode_with_param (helper arm)
//@ bounds: Prio3<Count<GF(17)>>, agg_id 1; every 32-byte string and its 31-byte prefix
//@ asserts: accepted; seed = the bytes; no blind; encoded_len = 32; truncated input refused
//@ stubs: alloc::fmt::format
//@ harness: c07_p3c_helper_share_enc
//@ prop: C07
//@ tier: quick
//@ cost: 10
//@ funcs: Prio3InputShare::{encode, encoded_len} (helper arm)
//@ bounds: arbitrary 32-byte seed, no blind
//@ asserts: output = seed bytes; length = encoded_len = 32
//@ stubs: alloc::fmt::format
helper_share!(c07_p3c_helper_share_dec, c07_p3c_helper_share_enc, p3c(), 32, false);

//@ harness: c07_p3s_helper_share_dec
//@ prop: C07,C08
//@ tier: quick
//@ cost: 25
//@ funcs: Prio3InputShare::decode_with_param (helper arm with blind)
//@ bounds: Prio3<SumVec<GF(17)>(1,2,2)>, agg_id 1; every 64-byte string and its 63-byte prefix
//@ asserts: accepted; seed then blind; encoded_len = 64; truncated input refused
//@ stubs: alloc::fmt::format
//@ harness: c07_p3s_helper_share_enc
//@ prop: C07
//@ tier: quick
//@ cost: 15
//@ funcs: Prio3InputShare::{encode, encoded_len} (helper arm with blind)
//@ bounds: arbitrary seed and blind
//@ asserts: output = seed then blind; length = encoded_len = 64
//@ stubs: alloc::fmt::format
helper_share!(c07_p3s_helper_share_dec, c07_p3s_helper_share_enc, p3s(), 64, true);

//@ harness: c08_p3_input_share_bad_agg_id
//@ prop: C08,C16
//@ tier: quick
//@ cost: 20
//@ funcs: Prio3InputShare::decode_with_param, Prio3::role_try_from
//@ bounds: Prio3<Count<GF(17)>> with 2 aggregators; agg_id: every usize >= 2; 6 arbitrary bytes
//@ asserts: refused with an error (never a panic in the u8 conversion)
//@ stubs: alloc::fmt::format
#[kani::proof]
#[kani::unwind(8)]
#[kani::stub(alloc::fmt::format, fmt_stub)]
pub fn c08_p3_input_share_bad_agg_id() {
    let vdaf = p3c();
    let id: usize = kani::any();
    kani::assume(id >= 2);
    let b: [u8; 6] = kani::any();
    let r = Prio3InputShare::<Field8, 32>::get_decoded_with_param(&(&vdaf, id), &b[..]);
    assert!(r.is_err());
    kani::cover!(id == usize::MAX);
    kani::cover!(id == 256);
    core::mem::forget(r);
}

// ---------------------------------------------------------------------------------------------
// Prio3PublicShare

//@ harness: c07_p3s_public_share_dec
//@ prop: C07,C08
//@ tier: quick
//@ cost: 30
//@ funcs: Prio3PublicShare::{decode_with_param, encoded_len}
//@ bounds: Prio3<SumVec<GF(17)>(1,2,2)>, 2 aggregators; every 64-byte string; its 63-byte prefix; a 65-byte string
//@ asserts: accepted with the two parts in order; encoded_len = 64; other lengths refused
//@ stubs: alloc::fmt::format
#[kani::proof]
#[kani::unwind(34)]
#[kani::stub(alloc::fmt::format, fmt_stub)]
pub fn c07_p3s_public_share_dec() {
    let vdaf = p3s();
    let b: [u8; 65] = kani::any();
    let r = Prio3PublicShare::<32>::get_decoded_with_param(&vdaf, &b[..64]);
    assert!(r.is_ok());
    if let Ok(v) = &r {
        assert_eq!(v.encoded_len(), Some(64));
        match &v.joint_rand_parts {
            Some(parts) => {
                assert_eq!(parts.len(), 2);
                assert!(seed_eq(&parts[0], &b[..32]));
                assert!(seed_eq(&parts[1], &b[32..64]));
            }
            None => panic!("joint randomness parts expected"),
        }
    }
    let short = Prio3PublicShare::<32>::get_decoded_with_param(&vdaf, &b[..63]);
    assert!(short.is_err());
    let long = Prio3PublicShare::<32>::get_decoded_with_param(&vdaf, &b[..]);
    assert!(long.is_err());
    kani::cover!(true);
    core::mem::forget((r, short, long));
}

//@ harness: c07_p3s_public_share_enc
//@ prop: C07
//@ tier: quick
//@ cost: 20
//@ funcs: Prio3PublicShare::{encode, encoded_len}
//@ bounds: two arbitrary 32-byte parts; also the empty (None) share
//@ asserts: output = parts in order, length = encoded_len = 64; None encodes to nothing with encoded_len 0
//@ stubs: alloc::fmt::format
#[kani::proof]
#[kani::unwind(34)]
#[kani::stub(alloc::fmt::format, fmt_stub)]
pub fn c07_p3s_public_share_enc() {
    let (s1, s2) = (any_seed(), any_seed());
    let v = Prio3PublicShare::<32> { joint_rand_parts: Some(vec![s1.clone(), s2.clone()]) };
    let mut out = Vec::with_capacity(64);
    let e = v.encode(&mut out);
    assert!(e.is_ok());
    assert_eq!(out.len(), 64);
    assert_eq!(v.encoded_len(), Some(64));
    assert!(seed_eq(&s1, &out[..32]));
    assert!(seed_eq(&s2, &out[32..]));
    let none = Prio3PublicShare::<32> { joint_rand_parts: None };
    let mut out0 = Vec::new();
    let e0 = none.encode(&mut out0);
    assert!(e0.is_ok());
    assert_eq!(out0.len(), 0);
    assert_eq!(none.encoded_len(), Some(0));
    kani::cover!(true);
    core::mem::forget((e, e0, out, out0, v, none));
}

//@ harness: c07_p3c_public_share_dec
//@ prop: C07,C08
//@ tier: quick
//@ cost: 8
//@ funcs: Prio3PublicShare::decode_with_param (type without joint randomness)
//@ bounds: Prio3<Count<GF(17)>>; the empty string and every 1-byte string
//@ asserts: empty accepted as None with encoded_len 0; any extra byte refused
//@ stubs: alloc::fmt::format
#[kani::proof]
#[kani::unwind(4)]
#[kani::stub(alloc::fmt::format, fmt_stub)]
pub fn c07_p3c_public_share_dec() {
    let vdaf = p3c();
    let b: [u8; 1] = kani::any();
    let r0 = Prio3PublicShare::<32>::get_decoded_with_param(&vdaf, &b[..0]);
    assert!(r0.is_ok());
    if let Ok(v) = &r0 {
        assert!(v.joint_rand_parts.is_none());
        assert_eq!(v.encoded_len(), Some(0));
    }
    let r1 = Prio3PublicShare::<32>::get_decoded_with_param(&vdaf, &b[..]);
    assert!(r1.is_err());
    kani::cover!(true);
    core::mem::forget((r0, r1));
}

// ---------------------------------------------------------------------------------------------
// Prio3VerifierShare / Prio3VerifierMessage (decoded relative to a verify state)

fn state_p3c_leader() -> Prio3VerifyState<Field8, 32> {
    Prio3VerifyState { share: Share::Leader(vec![Field8::zero()]), joint_rand_seed: None, agg_id: 0, verifiers_len: 4 }
}

fn state_p3s_leader() -> Prio3VerifyState<Field8, 32> {
    Prio3VerifyState {
        share: Share::Leader(vec![Field8::zero(), Field8::zero()]),
        joint_rand_seed: Some(Seed::from_bytes([7; 32])),
        agg_id: 0,
        verifiers_len: 6,
    }
}

//@ harness: c07_p3c_verifier_share_dec
//@ prop: C07,C08
//@ tier: quick
//@ cost: 20
//@ funcs: Prio3VerifierShare::{decode_with_param, encoded_len}
//@ bounds: state of Prio3<Count<GF(17)>> (verifier length 4, no joint randomness); every 4-byte string; 3- and 5-byte strings
//@ asserts: Ok iff every byte < 17; verifiers in order; no seed part; encoded_len = 4; other lengths refused
//@ stubs: alloc::fmt::format
#[kani::proof]
#[kani::unwind(7)]
#[kani::stub(alloc::fmt::format, fmt_stub)]
pub fn c07_p3c_verifier_share_dec() {
    let st = state_p3c_leader();
    let b: [u8; 5] = kani::any();
    let r = Prio3VerifierShare::<Field8, 32>::get_decoded_with_param(&st, &b[..4]);
    assert_eq!(r.is_ok(), b[..4].iter().all(|x| *x < 17));
    if let Ok(v) = &r {
        assert_eq!(v.encoded_len(), Some(4));
        assert_eq!(v.verifiers.len(), 4);
        assert!(v.joint_rand_part.is_none());
        let mut k = 0;
        while k < 4 {
            assert!(v.verifiers[k] == elem(b[k]));
            k += 1;
        }
    }
    let short = Prio3VerifierShare::<Field8, 32>::get_decoded_with_param(&st, &b[..3]);
    assert!(short.is_err());
    let long = Prio3VerifierShare::<Field8, 32>::get_decoded_with_param(&st, &b[..]);
    assert!(long.is_err());
    kani::cover!(r.is_ok());
    kani::cover!(r.is_err());
    core::mem::forget((r, short, long, st));
}

//@ harness: c07_p3s_verifier_share_dec
//@ prop: C07,C08
//@ tier: quick
//@ cost: 60
//@ funcs: Prio3VerifierShare::{decode_with_param, encoded_len}
//@ bounds: state of Prio3<SumVec<GF(17)>(1,2,2)> (verifier length 6 + joint-randomness part); every 38-byte string; the 37-byte prefix
//@ asserts: Ok iff the 6 element bytes < 17; verifiers in order; part = last 32 bytes; encoded_len = 38; truncated refused
//@ stubs: alloc::fmt::format
#[kani::proof]
#[kani::unwind(34)]
#[kani::stub(alloc::fmt::format, fmt_stub)]
pub fn c07_p3s_verifier_share_dec() {
    let st = state_p3s_leader();
    let b: [u8; 38] = kani::any();
    let r = Prio3VerifierShare::<Field8, 32>::get_decoded_with_param(&st, &b[..]);
    assert_eq!(r.is_ok(), b[..6].iter().all(|x| *x < 17));
    if let Ok(v) = &r {
        assert_eq!(v.encoded_len(), Some(38));
        assert_eq!(v.verifiers.len(), 6);
        let mut k = 0;
        while k < 6 {
            assert!(v.verifiers[k] == elem(b[k]));
            k += 1;
        }
        match &v.joint_rand_part {
            Some(s) => assert!(seed_eq(s, &b[6..])),
            None => panic!("joint randomness part expected"),
        }
    }
    let short = Prio3VerifierShare::<Field8, 32>::get_decoded_with_param(&st, &b[..37]);
    assert!(short.is_err());
    kani::cover!(r.is_ok());
    kani::cover!(r.is_err());
    core::mem::forget((r, short, st));
}

//@ harness: c07_p3s_verifier_share_enc
//@ prop: C07
//@ tier: quick
//@ cost: 40
//@ funcs: Prio3VerifierShare::{encode, encoded_len}
//@ bounds: 6 arbitrary GF(17) elements and an arbitrary 32-byte part; and 4 elements without part
//@ asserts: output = verifiers then part; length = encoded_len
//@ stubs: alloc::fmt::format
#[kani::proof]
#[kani::unwind(34)]
#[kani::stub(alloc::fmt::format, fmt_stub)]
pub fn c07_p3s_verifier_share_enc() {
    let ve = [any_elem(), any_elem(), any_elem(), any_elem(), any_elem(), any_elem()];
    let part = any_seed();
    let v = Prio3VerifierShare::<Field8, 32> { verifiers: ve.to_vec(), joint_rand_part: Some(part.clone()) };
    let mut out = Vec::with_capacity(38);
    let e = v.encode(&mut out);
    assert!(e.is_ok());
    assert_eq!(out.len(), 38);
    assert_eq!(v.encoded_len(), Some(38));
    let mut k = 0;
    while k < 6 {
        assert_eq!(out[k], ebyte(ve[k]));
        k += 1;
    }
    assert!(seed_eq(&part, &out[6..]));
    let w = Prio3VerifierShare::<Field8, 32> { verifiers: ve[..4].to_vec(), joint_rand_part: None };
    let mut out2 = Vec::with_capacity(4);
    let e2 = w.encode(&mut out2);
    assert!(e2.is_ok());
    assert_eq!(out2.len(), 4);
    assert_eq!(w.encoded_len(), Some(4));
    kani::cover!(true);
    core::mem::forget((e, e2, out, out2, v, w));
}

//@ harness: c07_p3_verifier_message
//@ prop: C07,C08
//@ tier: quick
//@ cost: 30
//@ funcs: Prio3VerifierMessage::{decode_with_param, encode, encoded_len}
//@ bounds: states with and without joint randomness; every 32-byte string, its 31-byte prefix, a 33-byte string; the empty string
//@ asserts: with joint randomness exactly the 32-byte strings are accepted (seed = bytes, re-encoded identically, encoded_len 32); without it only the empty string (encoded_len 0)
//@ stubs: alloc::fmt::format
#[kani::proof]
#[kani::unwind(34)]
#[kani::stub(alloc::fmt::format, fmt_stub)]
pub fn c07_p3_verifier_message() {
    let st = state_p3s_leader();
    let b: [u8; 33] = kani::any();
    let r = Prio3VerifierMessage::<32>::get_decoded_with_param(&st, &b[..32]);
    assert!(r.is_ok());
    if let Ok(v) = &r {
        assert_eq!(v.encoded_len(), Some(32));
        match &v.joint_rand_seed {
            Some(s) => assert!(seed_eq(s, &b[..32])),
            None => panic!("seed expected"),
        }
        let mut out = Vec::with_capacity(32);
        let e = v.encode(&mut out);
        assert!(e.is_ok());
        assert_eq!(out.len(), 32);
        let mut k = 0;
        while k < 32 {
            assert_eq!(out[k], b[k]);
            k += 1;
        }
        core::mem::forget((e, out));
    }
    let short = Prio3VerifierMessage::<32>::get_decoded_with_param(&st, &b[..31]);
    assert!(short.is_err());
    let long = Prio3VerifierMessage::<32>::get_decoded_with_param(&st, &b[..]);
    assert!(long.is_err());
    let st0 = state_p3c_leader();
    let r0 = Prio3VerifierMessage::<32>::get_decoded_with_param(&st0, &b[..0]);
    assert!(r0.is_ok());
    if let Ok(v0) = &r0 {
        assert!(v0.joint_rand_seed.is_none());
        assert_eq!(v0.encoded_len(), Some(0));
    }
    let r1 = Prio3VerifierMessage::<32>::get_decoded_with_param(&st0, &b[..1]);
    assert!(r1.is_err());
    kani::cover!(true);
    core::mem::forget((r, short, long, r0, r1, st, st0));
}

// ---------------------------------------------------------------------------------------------
// Prio3VerifyState

//@ harness: c07_p3s_verify_state_leader_dec
//@ prop: C07,C08
//@ tier: quick
//@ cost: 40
//@ funcs: Prio3VerifyState::{decode_with_param, encoded_len}, Share::decode_with_param (Leader)
//@ bounds: Prio3<SumVec<GF(17)>(1,2,2)>, agg_id 0; every 34-byte string (2 output-share elements + 32-byte seed); the 33-byte prefix
//@ asserts: Ok iff the 2 element bytes < 17; share = Leader(elements), seed = last 32 bytes, agg_id 0, verifiers_len 6; encoded_len = 34; truncated refused
//@ stubs: alloc::fmt::format
#[kani::proof]
#[kani::unwind(34)]
#[kani::stub(alloc::fmt::format, fmt_stub)]
pub fn c07_p3s_verify_state_leader_dec() {
    let vdaf = p3s();
    let b: [u8; 34] = kani::any();
    let r = Prio3VerifyState::<Field8, 32>::get_decoded_with_param(&(&vdaf, 0usize), &b[..]);
    assert_eq!(r.is_ok(), b[0] < 17 && b[1] < 17);
    if let Ok(v) = &r {
        assert_eq!(v.encoded_len(), Some(34));
        assert_eq!(v.agg_id, 0);
        assert_eq!(v.verifiers_len, 6);
        match &v.share {
            Share::Leader(d) => {
                assert_eq!(d.len(), 2);
                assert!(d[0] == elem(b[0]) && d[1] == elem(b[1]));
            }
            _ => panic!("leader state expected"),
        }
        match &v.joint_rand_seed {
            Some(s) => assert!(seed_eq(s, &b[2..])),
            None => panic!("seed expected"),
        }
    }
    let short = Prio3VerifyState::<Field8, 32>::get_decoded_with_param(&(&vdaf, 0usize), &b[..33]);
    assert!(short.is_err());
    kani::cover!(r.is_ok());
    kani::cover!(r.is_err());
    core::mem::forget((r, short));
}

//@ harness: c07_p3s_verify_state_helper_dec
//@ prop: C07,C08
//@ tier: quick
//@ cost: 40
//@ funcs: Prio3VerifyState::{decode_with_param, encoded_len}, Share::decode_with_param (Helper)
//@ bounds: Prio3<SumVec<GF(17)>(1,2,2)>, agg_id 1; every 64-byte string; the 63-byte prefix
//@ asserts: accepted; share = Helper(first 32 bytes), seed = last 32 bytes, agg_id 1; encoded_len = 64; truncated refused
//@ stubs: alloc::fmt::format
#[kani::proof]
#[kani::unwind(34)]
#[kani::stub(alloc::fmt::format, fmt_stub)]
pub fn c07_p3s_verify_state_helper_dec() {
    let vdaf = p3s();
    let b: [u8; 64] = kani::any();
    let r = Prio3VerifyState::<Field8, 32>::get_decoded_with_param(&(&vdaf, 1usize), &b[..]);
    assert!(r.is_ok());
    if let Ok(v) = &r {
        assert_eq!(v.encoded_len(), Some(64));
        assert_eq!(v.agg_id, 1);
        match &v.share {
            Share::Helper(s) => assert!(seed_eq(s, &b[..32])),
            _ => panic!("helper state expected"),
        }
        match &v.joint_rand_seed {
            Some(s) => assert!(seed_eq(s, &b[32..])),
            None => panic!("seed expected"),
        }
    }
    let short = Prio3VerifyState::<Field8, 32>::get_decoded_with_param(&(&vdaf, 1usize), &b[..63]);
    assert!(short.is_err());
    kani::cover!(true);
    core::mem::forget((r, short));
}

//@ harness: c07_p3_verify_state_enc
//@ prop: C07
//@ tier: quick
//@ cost: 40
//@ funcs: Prio3VerifyState::{encode, encoded_len}, Share::{encode, encoded_len}
//@ bounds: leader state (2 arbitrary elements + arbitrary seed) and helper state (arbitrary seed, no joint randomness)
//@ asserts: output = share then seed; length = encoded_len
//@ stubs: alloc::fmt::format
#[kani::proof]
#[kani::unwind(34)]
#[kani::stub(alloc::fmt::format, fmt_stub)]
pub fn c07_p3_verify_state_enc() {
    let d = [any_elem(), any_elem()];
    let s = any_seed();
    let v = Prio3VerifyState::<Field8, 32> { share: Share::Leader(d.to_vec()), joint_rand_seed: Some(s.clone()), agg_id: 0, verifiers_len: 6 };
    let mut out = Vec::with_capacity(34);
    let e = v.encode(&mut out);
    assert!(e.is_ok());
    assert_eq!(out.len(), 34);
    assert_eq!(v.encoded_len(), Some(34));
    assert_eq!(out[0], ebyte(d[0]));
    assert_eq!(out[1], ebyte(d[1]));
    assert!(seed_eq(&s, &out[2..]));
    let h = any_seed();
    let w = Prio3VerifyState::<Field8, 32> { share: Share::Helper(h.clone()), joint_rand_seed: None, agg_id: 1, verifiers_len: 4 };
    let mut out2 = Vec::with_capacity(32);
    let e2 = w.encode(&mut out2);
    assert!(e2.is_ok());
    assert_eq!(out2.len(), 32);
    assert_eq!(w.encoded_len(), Some(32));
    assert!(seed_eq(&h, &out2[..]));
    kani::cover!(true);
    core::mem::forget((e, e2, out, out2, v, w));
}

// ---------------------------------------------------------------------------------------------
// OutputShare / AggregateShare (element count comes from the VDAF instance, not from the wire)

macro_rules! share_vec {
    ($name:ident, $T:ident) => {
        #[kani::proof]
        #[kani::unwind(6)]
        #[kani::stub(alloc::fmt::format, fmt_stub)]
        pub fn $name() {
            let vdaf = p3s(); // output_len 2
            let b: [u8; 3] = kani::any();
            let r = $T::<Field8>::get_decoded_with_param(&(&vdaf, &()), &b[..2]);
            assert_eq!(r.is_ok(), b[0] < 17 && b[1] < 17);
            if let Ok(v) = &r {
                assert_eq!(v.encoded_len(), Some(2));
                let d: &[Field8] = v.as_ref();
                assert_eq!(d.len(), 2);
                assert!(d[0] == elem(b[0]) && d[1] == elem(b[1]));
            }
            let short = $T::<Field8>::get_decoded_with_param(&(&vdaf, &()), &b[..1]);
            assert!(short.is_err());
            let long = $T::<Field8>::get_decoded_with_param(&(&vdaf, &()), &b[..]);
            assert!(long.is_err());
            // encode side
            let es = [any_elem(), any_elem()];
            let w = $T::<Field8>::from(es.to_vec());
            let mut out = Vec::with_capacity(2);
            let e = w.encode(&mut out);
            assert!(e.is_ok());
            assert_eq!(out.len(), 2);
            assert_eq!(w.encoded_len(), Some(2));
            assert_eq!(out[0], ebyte(es[0]));
            assert_eq!(out[1], ebyte(es[1]));
            kani::cover!(r.is_ok());
            kani::cover!(r.is_err());
            core::mem::forget((r, short, long, e, out, w));
        }
    };
}

//@ harness: c07_p3s_output_share
//@ prop: C07,C08
//@ tier: quick
//@ cost: 30
//@ funcs: OutputShare::{decode_with_param (Prio3), encode, encoded_len}
//@ bounds: Prio3<SumVec<GF(17)>(1,2,2)> (output_len 2); every byte string of length 1,2,3; every 2-element value
//@ asserts: D and E contracts; wrong lengths refused
//@ stubs: alloc::fmt::format
share_vec!(c07_p3s_output_share, OutputShare);

//@ harness: c07_p3s_aggregate_share
//@ prop: C07,C08
//@ tier: quick
//@ cost: 30
//@ funcs: AggregateShare::{decode_with_param (Prio3), encode, encoded_len}
//@ bounds: Prio3<SumVec<GF(17)>(1,2,2)> (output_len 2); every byte string of length 1,2,3; every 2-element value
//@ asserts: D and E contracts; wrong lengths refused
//@ stubs: alloc::fmt::format
share_vec!(c07_p3s_aggregate_share, AggregateShare);
