// C11 — expanding a byte stream into field elements follows the specification exactly
// (successive element-sized chunks, bits above the modulus length cleared, chunks >= p discarded),
// including across the Prng's internal buffer refills.
// Mounted inside `prng` so that a Prng can be put into an *arbitrary valid state* (buffer contents and
// read position symbolic): one call of get() from any state covers streams of any length by induction.
// The byte stream is a harness stub: every byte it hands out is symbolic (bounded rejections are
// enforced by assumptions placed inside the stub, i.e. before the code they constrain).
use super::super::*;
use crate::field::{Field16, Field8, FieldElement, FieldElementExt};
use core::convert::Infallible;
use rand_core::TryRng;

const P8: u8 = 17;
const MASK8: u8 = 31;

/// Stream stub: each fill hands out arbitrary bytes; the first chunk of every fill is acceptable
/// (bounds the rejection loop to the chunks already buffered).
struct Stream8 {
    fills: usize,
    last_first: u8,
}

impl TryRng for Stream8 {
    type Error = Infallible;
    fn try_next_u32(&mut self) -> Result<u32, Infallible> {
        Ok(kani::any())
    }
    fn try_next_u64(&mut self) -> Result<u64, Infallible> {
        Ok(kani::any())
    }
    fn try_fill_bytes(&mut self, dst: &mut [u8]) -> Result<(), Infallible> {
        let data: [u8; 32] = kani::any();
        kani::assume((data[0] & MASK8) < P8);
        let n = dst.len();
        dst.copy_from_slice(&data[..n]);
        self.fills += 1;
        self.last_first = data[0];
        Ok(())
    }
}

fn spec8(b: u8) -> Option<Field8> {
    // element-sized chunk -> clear the bits above the modulus length -> discard if >= p
    let v = b & MASK8;
    if v < P8 {
        Some(Field8::from(v))
    } else {
        None
    }
}

//@ harness: c11_prng_get_scan
//@ prop: C11
//@ tier: quick
//@ cost: 60
//@ funcs: prng::Prng::<GF17, _>::get, FieldElementExt::from_random_rejection, Field8::try_from_random
//@ bounds: arbitrary Prng state: 32-byte buffer fully symbolic, read position any 0..=29; at most 2 rejected chunks before an accepted one
//@ asserts: returns the element of the first chunk c with (c & mask) < p, skipping exactly the rejected ones; read position ends right after it; no refill
//@ assumes: one of the next three chunks is acceptable (rejection bound)
#[kani::proof]
#[kani::unwind(5)]
pub fn c11_prng_get_scan() {
    let buf: [u8; 32] = kani::any();
    let idx: usize = kani::any();
    kani::assume(idx <= 29);
    let (c0, c1, c2) = (buf[idx], buf[idx + 1], buf[idx + 2]);
    kani::assume(spec8(c0).is_some() || spec8(c1).is_some() || spec8(c2).is_some());
    let mut p: Prng<Field8, Stream8> = Prng {
        phantom: PhantomData,
        seed_stream: Stream8 { fills: 0, last_first: 0 },
        buffer: buf.to_vec(),
        buffer_index: idx,
    };
    let got = p.get();
    let (want, used) = match (spec8(c0), spec8(c1), spec8(c2)) {
        (Some(x), _, _) => (x, 1),
        (None, Some(x), _) => (x, 2),
        (None, None, Some(x)) => (x, 3),
        _ => unreachable!(),
    };
    assert!(got == want);
    assert_eq!(p.buffer_index, idx + used);
    assert_eq!(p.seed_stream.fills, 0);
    kani::cover!(used == 3);
    kani::cover!(used == 1 && c0 >= 32);
    core::mem::forget(p);
}

//@ harness: c11_prng_get_refill
//@ prop: C11
//@ tier: quick
//@ cost: 90
//@ funcs: prng::Prng::<GF17, _>::get (buffer exhausted -> left-over handling, refill, rescan)
//@ bounds: arbitrary Prng state with read position 30, 31 or 32 (0..2 chunks left, all symbolic); the refilled buffer's first chunk is acceptable
//@ asserts: buffered chunks are consumed first in order; only if all are rejected the stream is read (exactly one refill of the whole buffer) and the first chunk of the new data is returned; read position consistent
#[kani::proof]
#[kani::unwind(5)]
pub fn c11_prng_get_refill() {
    let buf: [u8; 32] = kani::any();
    let idx: usize = kani::any();
    kani::assume(idx >= 30 && idx <= 32);
    let mut p: Prng<Field8, Stream8> = Prng {
        phantom: PhantomData,
        seed_stream: Stream8 { fills: 0, last_first: 0 },
        buffer: buf.to_vec(),
        buffer_index: idx,
    };
    let got = p.get();
    let a = if idx <= 30 { spec8(buf[30]) } else { None };
    let b = if idx <= 31 { spec8(buf[31]) } else { None };
    match (a, b) {
        (Some(x), _) => {
            assert!(got == x && p.buffer_index == 31 && p.seed_stream.fills == 0);
        }
        (None, Some(x)) => {
            assert!(got == x && p.buffer_index == 32 && p.seed_stream.fills == 0);
        }
        (None, None) => {
            assert_eq!(p.seed_stream.fills, 1);
            assert!(got == spec8(p.seed_stream.last_first).unwrap());
            assert_eq!(p.buffer_index, 1);
            assert_eq!(p.buffer.len(), 32);
        }
    }
    kani::cover!(p.seed_stream.fills == 1 && idx == 30);
    kani::cover!(p.seed_stream.fills == 0);
    core::mem::forget(p);
}

/// Stream for the unbuffered sampler: one byte per read, at most two rejections.
struct Stream1 {
    reads: usize,
    log: [u8; 3],
}

impl TryRng for Stream1 {
    type Error = Infallible;
    fn try_next_u32(&mut self) -> Result<u32, Infallible> {
        Ok(kani::any())
    }
    fn try_next_u64(&mut self) -> Result<u64, Infallible> {
        Ok(kani::any())
    }
    fn try_fill_bytes(&mut self, dst: &mut [u8]) -> Result<(), Infallible> {
        let b: u8 = kani::any();
        if self.reads >= 2 {
            kani::assume((b & MASK8) < P8);
        }
        assert!(dst.len() == 1);
        dst[0] = b;
        self.log[self.reads] = b;
        self.reads += 1;
        Ok(())
    }
}

//@ harness: c11_generate_random
//@ prop: C11
//@ tier: quick
//@ cost: 30
//@ funcs: FieldElementExt::generate_random (GF(17)), from_random_rejection, try_from_random
//@ bounds: every byte stream with at most two rejected chunks
//@ asserts: reads exactly one element-sized chunk at a time; every chunk before the returned one satisfies (c & mask) >= p; the returned element is the masked last chunk
#[kani::proof]
#[kani::unwind(5)]
pub fn c11_generate_random() {
    let mut s = Stream1 { reads: 0, log: [0; 3] };
    let got = Field8::generate_random(&mut s);
    assert!(s.reads >= 1 && s.reads <= 3);
    let last = s.log[s.reads - 1];
    assert!(got == spec8(last).unwrap());
    if s.reads >= 2 {
        assert!(spec8(s.log[0]).is_none());
    }
    if s.reads == 3 {
        assert!(spec8(s.log[1]).is_none());
    }
    kani::cover!(s.reads == 3);
    kani::cover!(s.reads == 1);
}

//@ harness: c11_prng_new_field_continuity
//@ prop: C11
//@ tier: quick
//@ cost: 60
//@ funcs: prng::Prng::{into_new_field, get} (GF(17) 1-byte chunks -> GF(61441) 2-byte chunks)
//@ bounds: arbitrary 32-byte buffer, read position any 0..=28; the next 2-byte chunk or the one after is acceptable
//@ asserts: after switching fields the next element is decoded from the 2-byte chunk that starts exactly at the old read position (little-endian, < p), nothing skipped or re-read
#[kani::proof]
#[kani::unwind(5)]
pub fn c11_prng_new_field_continuity() {
    const P16: u16 = 61441;
    let buf: [u8; 32] = kani::any();
    let idx: usize = kani::any();
    kani::assume(idx <= 28);
    let v0 = u16::from_le_bytes([buf[idx], buf[idx + 1]]);
    let v1 = u16::from_le_bytes([buf[idx + 2], buf[idx + 3]]);
    kani::assume(v0 < P16 || v1 < P16);
    let p: Prng<Field8, Stream8> = Prng {
        phantom: PhantomData,
        seed_stream: Stream8 { fills: 0, last_first: 0 },
        buffer: buf.to_vec(),
        buffer_index: idx,
    };
    let mut q: Prng<Field16, Stream8> = p.into_new_field();
    let got = q.get();
    if v0 < P16 {
        assert!(got == Field16::from(v0));
        assert_eq!(q.buffer_index, idx + 2);
    } else {
        assert!(got == Field16::from(v1));
        assert_eq!(q.buffer_index, idx + 4);
    }
    assert_eq!(q.seed_stream.fills, 0);
    kani::cover!(v0 >= P16);
    kani::cover!(v0 < P16 && idx % 2 == 1);
    core::mem::forget(q);
}

/// Stream for the unbuffered sampler with up to four rejections (thorough tier).
struct Stream5 {
    reads: usize,
    log: [u8; 5],
}

impl TryRng for Stream5 {
    type Error = Infallible;
    fn try_next_u32(&mut self) -> Result<u32, Infallible> {
        Ok(kani::any())
    }
    fn try_next_u64(&mut self) -> Result<u64, Infallible> {
        Ok(kani::any())
    }
    fn try_fill_bytes(&mut self, dst: &mut [u8]) -> Result<(), Infallible> {
        let b: u8 = kani::any();
        if self.reads >= 4 {
            kani::assume((b & MASK8) < P8);
        }
        assert!(dst.len() == 1);
        dst[0] = b;
        self.log[self.reads] = b;
        self.reads += 1;
        Ok(())
    }
}

//@ harness: c11_generate_random_deep
//@ prop: C11
//@ tier: thorough
//@ cost: 120
//@ timeout: 1800
//@ funcs: FieldElementExt::generate_random (GF(17))
//@ bounds: every byte stream with at most four rejected chunks
//@ asserts: every chunk before the returned one is rejected by the specification ((c & mask) >= p); the returned element is the masked last chunk
#[kani::proof]
#[kani::unwind(7)]
pub fn c11_generate_random_deep() {
    let mut s = Stream5 { reads: 0, log: [0; 5] };
    let got = Field8::generate_random(&mut s);
    assert!(s.reads >= 1 && s.reads <= 5);
    assert!(got == spec8(s.log[s.reads - 1]).unwrap());
    let mut k = 0;
    while k + 1 < s.reads {
        assert!(spec8(s.log[k]).is_none());
        k += 1;
    }
    kani::cover!(s.reads == 5);
}
