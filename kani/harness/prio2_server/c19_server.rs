// C19 (narrow): Prio2 proof packing and the aggregator-side evaluation formulas, over GF(17).
// Mounted inside vdaf::prio2::server. The functions are the crate's generic code at F = Field8.
use super::super::*;
use crate::field::{Field8, FieldElement};
use crate::vdaf::prio2::client::{proof_length, unpack_proof};

const P: u32 = 17;
const ROOT: [u32; 5] = [1, 16, 13, 9, 3];

fn fmt_stub(_: core::fmt::Arguments<'_>) -> String {
    String::new()
}

fn any_f() -> Field8 {
    let raw: u8 = kani::any();
    match Field8::verif_from_raw(raw) {
        Some(e) => e,
        None => {
            kani::assume(false);
            Field8::zero()
        }
    }
}

fn u(x: Field8) -> u32 {
    x.verif_raw() as u32
}

fn inv17(x: u32) -> u32 {
    let x2 = x * x % P;
    let x4 = x2 * x2 % P;
    let x8 = x4 * x4 % P;
    x8 * x4 % P * x2 % P * x % P
}

fn interp_eval(nodes: &[u32], vals: &[u32], x: u32) -> u32 {
    let n = nodes.len();
    let mut acc = 0u32;
    let mut i = 0;
    while i < n {
        let mut num = 1u32;
        let mut den = 1u32;
        let mut j = 0;
        while j < n {
            if j != i {
                num = num * ((x + P - nodes[j]) % P) % P;
                den = den * ((nodes[i] + P - nodes[j]) % P) % P;
            }
            j += 1;
        }
        acc = (acc + vals[i] * num % P * inv17(den)) % P;
        i += 1;
    }
    acc
}

//@ harness: c19_proof_packing
//@ prop: C19
//@ tier: quick
//@ cost: 60
//@ funcs: prio2::client::{proof_length, unpack_proof}
//@ bounds: dimension every value 0..=6; proof slices of every length 0..=20 (contents symbolic)
//@ asserts: proof_length = dim + 3 + nextpow2(dim+1); unpack accepts exactly that length; data, f0, g0, h0 and the packed points tile the slice in this order
//@ stubs: alloc::fmt::format
#[kani::proof]
#[kani::unwind(4)]
#[kani::stub(alloc::fmt::format, fmt_stub)]
pub fn c19_proof_packing() {
    let dim: usize = kani::any();
    kani::assume(dim <= 6);
    let len: usize = kani::any();
    kani::assume(len <= 20);
    let buf = [any_f(); 20];
    let n = (dim + 1).next_power_of_two();
    assert_eq!(proof_length(dim), dim + 3 + n);
    let r = unpack_proof(&buf[..len], dim);
    assert_eq!(r.is_ok(), len == dim + 3 + n);
    if let Ok(up) = &r {
        assert_eq!(up.data.len(), dim);
        assert_eq!(up.points_h_packed.len(), n);
        assert!(core::ptr::eq(up.data.as_ptr(), buf.as_ptr()));
        assert!(core::ptr::eq(up.f0, &buf[dim]));
        assert!(core::ptr::eq(up.g0, &buf[dim + 1]));
        assert!(core::ptr::eq(up.h0, &buf[dim + 2]));
        assert!(core::ptr::eq(up.points_h_packed.as_ptr(), buf[dim + 3..].as_ptr()));
    }
    kani::cover!(r.is_ok() && dim == 6);
    kani::cover!(r.is_err());
    core::mem::forget(r);
}

//@ harness: c19_verification_message_dim1
//@ prop: C19
//@ tier: quick
//@ cost: 200
//@ funcs: prio2::server::generate_verification_message, polynomial::poly_interpret_eval
//@ bounds: GF(17); dimension 1 (n = 2: dimension + 1 is a power of two, no zero padding); every proof share (6 elements), every query point, both server roles
//@ asserts: f_r, g_r = the degree-<2 polynomials through (1, f0/g0), (-1, data - [first server]) at r; h_r = the degree-<4 polynomial through h0 and the packed odd points (even points zero) at r
//@ stubs: alloc::fmt::format
#[kani::proof]
#[kani::unwind(10)]
#[kani::stub(alloc::fmt::format, fmt_stub)]
pub fn c19_verification_message_dim1() {
    let proof = [any_f(), any_f(), any_f(), any_f(), any_f(), any_f()]; // d0, f0, g0, h0, hp0, hp1
    let r = any_f();
    let first: bool = kani::any();
    let m = generate_verification_message(1, r, &proof, first);
    match &m {
        Ok(v) => {
            let (d0, f0, g0, h0, hp0, hp1) = (u(proof[0]), u(proof[1]), u(proof[2]), u(proof[3]), u(proof[4]), u(proof[5]));
            let n2 = [1u32, 16];
            assert_eq!(u(v.f_r), interp_eval(&n2, &[f0, d0], u(r)));
            let dg = if first { (d0 + P - 1) % P } else { d0 };
            assert_eq!(u(v.g_r), interp_eval(&n2, &[g0, dg], u(r)));
            let n4 = [1u32, ROOT[2], 16, ROOT[2] * 16 % P];
            assert_eq!(u(v.h_r), interp_eval(&n4, &[h0, hp0, 0, hp1], u(r)));
        }
        Err(_) => panic!("well-formed proof share refused"),
    }
    kani::cover!(first);
    kani::cover!(!first);
    core::mem::forget(m);
}

//@ harness: c19_verification_message_dim2
//@ prop: C19
//@ tier: thorough
//@ cost: 900
//@ timeout: 3000
//@ funcs: prio2::server::generate_verification_message
//@ bounds: GF(17); dimension 2 (n = 4, one zero-padded point); data and f0/g0/h0 symbolic, packed points and query point concrete
//@ asserts: f_r, g_r, h_r = interpolation references
//@ stubs: alloc::fmt::format
#[kani::proof]
#[kani::unwind(12)]
#[kani::stub(alloc::fmt::format, fmt_stub)]
pub fn c19_verification_message_dim2() {
    let f = |v: u8| Field8::from(v);
    let proof = [any_f(), any_f(), any_f(), any_f(), any_f(), f(2), f(7), f(11), f(5)]; // d0 d1 f0 g0 h0 hp0..3
    let r = f(6);
    let m = generate_verification_message(2, r, &proof, true);
    match &m {
        Ok(v) => {
            let x: [u32; 9] = [u(proof[0]), u(proof[1]), u(proof[2]), u(proof[3]), u(proof[4]), 2, 7, 11, 5];
            let n4 = [1u32, ROOT[2], 16, ROOT[2] * 16 % P];
            assert_eq!(u(v.f_r), interp_eval(&n4, &[x[2], x[0], x[1], 0], 6));
            assert_eq!(u(v.g_r), interp_eval(&n4, &[x[3], (x[0] + P - 1) % P, (x[1] + P - 1) % P, 0], 6));
            let w8 = ROOT[3];
            let mut n8 = [1u32; 8];
            for i in 1..8 {
                n8[i] = n8[i - 1] * w8 % P;
            }
            assert_eq!(u(v.h_r), interp_eval(&n8, &[x[4], 2, 0, 7, 0, 11, 0, 5], 6));
        }
        Err(_) => panic!("well-formed proof share refused"),
    }
    kani::cover!(true);
    core::mem::forget(m);
}

//@ harness: c19_is_valid_share
//@ prop: C19
//@ tier: quick
//@ cost: 30
//@ funcs: prio2::server::is_valid_share
//@ bounds: GF(17); every pair of verification messages
//@ asserts: accept iff (f1+f2)*(g1+g2) = h1+h2
//@ stubs: alloc::fmt::format
#[kani::proof]
#[kani::unwind(4)]
#[kani::stub(alloc::fmt::format, fmt_stub)]
pub fn c19_is_valid_share() {
    let v1 = VerificationMessage { f_r: any_f(), g_r: any_f(), h_r: any_f() };
    let v2 = VerificationMessage { f_r: any_f(), g_r: any_f(), h_r: any_f() };
    let want = (u(v1.f_r) + u(v2.f_r)) % P * ((u(v1.g_r) + u(v2.g_r)) % P) % P == (u(v1.h_r) + u(v2.h_r)) % P;
    assert_eq!(is_valid_share(&v1, &v2), want);
    kani::cover!(want);
    kani::cover!(!want);
}

//@ harness: c19_wrong_length_refused
//@ prop: C19,C16
//@ tier: quick
//@ cost: 60
//@ funcs: prio2::server::generate_verification_message (length check)
//@ bounds: GF(17); dimension 1; proof shares of length 5 and 7
//@ asserts: refused, no panic
//@ stubs: alloc::fmt::format
#[kani::proof]
#[kani::unwind(10)]
#[kani::stub(alloc::fmt::format, fmt_stub)]
pub fn c19_wrong_length_refused() {
    let buf = [any_f(); 7];
    let r = any_f();
    let a = generate_verification_message(1, r, &buf[..5], kani::any());
    let b = generate_verification_message(1, r, &buf[..7], kani::any());
    assert!(a.is_err() && b.is_err());
    kani::cover!(true);
    core::mem::forget((a, b));
}
